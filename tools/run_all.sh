#!/bin/bash
# Run the quick (or $1) tier of every check present; print one status line per check.
tier=${1:-quick}
cd /verif
for f in verif/checks/c*.py; do
  id=$(basename $f .py | tr a-z A-Z)
  start=$(date +%s)
  out=$(./vcheck $id --tier $tier 2>&1); rc=$?
  end=$(date +%s)
  echo "== $id rc=$rc t=$((end-start))s"
  echo "$out" | grep -E "VIOLATION|HARNESS-ERROR|^\[" | head -20
  echo "$out" | grep -c KNOWN-FINDING | sed 's/^/   known-lines=/'
done
