#!/bin/bash
# Thorough tier of every check against a snapshot of /repo (for `vp run --with-repo`):
# evidence and replays go to the snapshot directory, not to /verif.
here="$(cd "$(dirname "${BASH_SOURCE[0]}")/.." && pwd)"
cd "$here"
if [ -n "$VP_RUN_REPO" ]; then export PYTHONPATH="$VP_RUN_REPO" VERIF_REPO="$VP_RUN_REPO"; fi
export VERIF_EVIDENCE_DIR="$here/evidence_thorough" VERIF_REPLAY_DIR="$here/replays_thorough"
for id in ${@:-C30 C29 C19 C07 C08 C10 C11 C12 C13 C14 C21 C22 C09 C20 C04 C06 C25 C23 C24 C28 C03 C02 C01 C18}; do
  start=$(date +%s)
  out=$(./vcheck $id --tier thorough 2>&1); rc=$?
  echo "== $id rc=$rc t=$(( $(date +%s) - start ))s"
  echo "$out" | grep -E "VIOLATION|HARNESS-ERROR|^\[" | cut -c1-400 | head -20
done
