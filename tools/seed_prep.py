"""
Prepare a seeding job for a sub-agent: scratch worktree of /repo under /tmp/seed/<name>
and the prompt text (property text only, nothing from /verif).

Usage: seed_prep.py <name> <property id> [hint...]   -> prints the prompt
"""
import json
import pathlib
import subprocess
import sys

name, pid = sys.argv[1], sys.argv[2]
hint = " ".join(sys.argv[3:])
here = pathlib.Path(__file__).resolve().parent.parent
prop = None
for line in (here / "properties.jsonl").read_text().splitlines():
    if line.strip():
        p = json.loads(line)
        if p["id"] == pid:
            prop = p
assert prop is not None
d = pathlib.Path("/tmp/seed") / name
out = pathlib.Path("/tmp/seed/out") / name
out.mkdir(parents=True, exist_ok=True)
if not d.exists():
    subprocess.run(["git", "-C", "/repo", "worktree", "add", "--detach", str(d), "HEAD"], check=True, capture_output=True)

mech = "; ".join(f"{m['name']} ({m['where']})" for m in prop["anchors"].get("mechanism", []))
text = f"""You are given a scratch git worktree of the open-source Python project aas-core-codegen at {d} (a code and schema generator that parses a meta-model written in a Python subset and emits SDKs/schemas for several languages; read its README and sources as needed). Work ONLY inside {d} and {out}/ . Do not read or touch /repo, /verif, or any other directory under /tmp/seed. The interpreter is /venv/bin/python; the package `aas_core_codegen` is installed there in editable mode from ANOTHER directory, so ALWAYS run things as `cd {d} && PYTHONPATH={d} /venv/bin/python ...` and make sure `aas_core_codegen.__file__` starts with {d}. There is no network.

Here is a semantic property this code base is supposed to satisfy:

TITLE: {prop['title']}
STATEMENT: {prop['statement']}
QUANTIFIED OVER: {prop['quantifier']['text']}
ANCHORED IN: {', '.join(prop['anchors']['files'])}
MECHANISMS: {mech}

TASK: make a realistic change to the sources under {d}/aas_core_codegen (a plausible bug of the kind a maintainer could introduce by a refactoring, an optimisation or a "simplification"; roughly 1-15 changed lines; no new files) that BREAKS this property while
 (a) the package still imports and works on ordinary inputs, and
 (b) the project's own test suite still passes: `cd {d} && PYTHONPATH={d} /venv/bin/python -m pytest -q -p no:cacheprovider -n 6 dev/tests` (about 10 minutes). Run at least the test files related to what you touched and preferably the whole suite. One failure, dev/tests/test_main.py::Test_cpp::test_expected_aas_core_meta_v3, is pre-existing and tolerated. Do not modify tests or test data.
The change must need something specific to manifest - an unusual input, a multi-step sequence of operations, a particular interleaving or crash point, or two cooperating code sites that each look fine alone - NOT something that ordinary use would expose at once.{(' HINT for this variant: ' + hint) if hint else ''}

DELIVER into {out}/ :
 - patch.diff : output of `git -C {d} diff` (only files under aas_core_codegen/).
 - demo.py : a self-contained program run as `cd <some checkout of the project> && /venv/bin/python demo.py`. It must insert the current working directory at the front of sys.path (so it tests the checkout it is run from), print `Using aas_core_codegen from: <path of the imported package>`, exit 0 when the property holds in its scenario and exit 1 (printing what went wrong) when the property is violated. It must exit 0 on the unchanged checkout and 1 with your patch applied; no network; it cleans up its temporary files; it finishes within 2 minutes.
 - notes.md : 5-10 lines: what you changed, why the existing tests do not notice, what exactly is needed for the breakage to manifest.
Check both directions yourself with `git diff > /tmp/<your-own-name>.diff; git apply -R /tmp/<your-own-name>.diff; ...; git apply /tmp/<your-own-name>.diff` (do NOT use `git stash`: the stash is shared between all worktrees of the repository and other people work in sibling worktrees). Leave the worktree with your change applied. Your final answer must be at most 3 lines (what you changed + whether the suite passed).
"""
(out / "PROMPT.txt").write_text(text)
print(text)
