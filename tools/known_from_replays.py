"""Print candidate `known:` lines for the replays of a property (to be reviewed)."""
import glob, json, sys
pid = sys.argv[1]
for path in sorted(glob.glob(f"/verif/replays/{pid}/*.json")):
    d = json.load(open(path))
    case = d["case"]
    info = case.get("info") if isinstance(case, dict) else None
    what = d["message"].replace("\n", " ")[:150]
    where = ""
    if isinstance(info, dict) and "deviation" in info:
        dev = info["deviation"]
        where = f"seed {info.get('seed')} deviation {dev[0]}{'/' + str(dev[2]) if len(dev) > 2 else ''}: "
    elif isinstance(info, dict) and "pattern" in info:
        where = f"pattern {info['pattern']!r}: "
    print(f"known: property={pid} key={d['signature']} -- {where}{what} (witness {path.split('/')[-1]})")
