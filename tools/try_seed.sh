#!/bin/bash
# Run a check against a seeded change: tools/try_seed.sh <seed name> <Cxx> [tier]
# Applies the patch to /repo, runs the check with evidence/replays redirected to a
# scratch directory, and ALWAYS restores /repo afterwards.
name=$1; id=$2; tier=${3:-quick}
patch=/verif/seeded/$name/patch.diff
[ -f "$patch" ] || patch=/tmp/seed/out/$name/patch.diff
[ -f "$patch" ] || { echo "no patch for $name"; exit 2; }
if [ -n "$(git -C /repo status --porcelain --untracked-files=no | grep -v 'dev/test_data/main/cpp/expected/aas_core_meta.v3/expected_output/src/pattern.cpp')" ]; then
  echo "/repo is dirty; refusing"; exit 2; fi
scratch=$(mktemp -d /dev/shm/tryseed-XXXX)
git -C /repo apply --3way "$patch" 2>/dev/null || git -C /repo apply "$patch" || { echo "patch does not apply"; rm -rf $scratch; exit 2; }
git -C /repo reset -q
cd /verif
VERIF_EVIDENCE_DIR=$scratch/evidence VERIF_REPLAY_DIR=$scratch/replays ./vcheck $id --tier $tier > $scratch/out.txt 2>&1
rc=$?
git -C /repo checkout -- . 
echo "== seed=$name check=$id tier=$tier rc=$rc"
grep -E "VIOLATION|HARNESS-ERROR" $scratch/out.txt | cut -c1-400 | head -${SHOW:-6}
tail -1 $scratch/out.txt | cut -c1-300
rm -rf $scratch
exit $rc
