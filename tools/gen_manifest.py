"""Regenerate /verif/MANIFEST.json from the check modules present under verif/checks."""
import importlib
import json
import pathlib
import sys

HERE = pathlib.Path(__file__).resolve().parent.parent
sys.path.insert(0, str(HERE))

BASELINE_CMD = (
    "cd /repo && /venv/bin/python -m pytest -ra -q -p no:cacheprovider "
    "--timeout=900 --continue-on-collection-errors"
)

props = [json.loads(line) for line in (HERE / "properties.jsonl").read_text().splitlines() if line.strip()]
na_path = HERE / "tools" / "not_applicable.json"
not_applicable = json.loads(na_path.read_text()) if na_path.exists() else {}

checks = []
na = []
for prop in props:
    pid = prop["id"]
    path = HERE / "verif" / "checks" / f"{pid.lower()}.py"
    if not path.exists():
        na.append(
            {
                "property_id": pid,
                "reason": not_applicable.get(
                    pid,
                    "check not built yet in this session (planned in DESIGN.md section 3); "
                    "not claimed until its machinery exists and is silent on the unchanged tree",
                ),
            }
        )
        continue
    module = importlib.import_module(f"verif.checks.{pid.lower()}")
    meta = module.META
    checks.append(
        {
            "property_id": pid,
            "quick_cmd": f"./vcheck {pid} --tier quick",
            "thorough_cmd": f"./vcheck {pid} --tier thorough",
            "evidence_file": f"/verif/evidence/{pid}.json",
            "replay_cmd_template": f"./vcheck {pid} --replay {{path}}",
            "engine": "vcheck",
            "level_claimed": {
                "category": "model_checking",
                "text": meta.get(
                    "level_text",
                    "Bounded exhaustive exploration: every element of the stated finite "
                    "space is executed on the real implementation and compared with an "
                    "independent reference model; holds for the bound, says nothing beyond it. "
                    "Bounds: quick = " + meta["bounds"]["quick"] + "; thorough = " + meta["bounds"]["thorough"],
                ),
                "design_ref": f"DESIGN.md section 3, {pid}",
            },
            "level_note": "; ".join(meta["assumptions"]) or "reference model in /verif/verif/checks is trusted",
            "technique": meta["technique"],
        }
    )

manifest = {
    "version": 1,
    "setup_cmd": "cd /verif && /venv/bin/python -m compileall -q verif >/dev/null && /venv/bin/python tools/probe_tools.py",
    "hooks": {
        "guard": "AAS_CORE_CODEGEN_VERIF",
        "enable": "no source hooks are needed: all interception is monkey-patching from the harness process (guard name reserved, unused)",
        "baseline_off_cmd": BASELINE_CMD,
        "source_commits": [],
        "add_only": True,
    },
    "engines": [
        {
            "name": "vcheck",
            "path": "/verif/vcheck",
            "serves_properties": [c["property_id"] for c in checks],
            "kind_free_text": "hand-written explicit-state / small-scope exhaustive explorer in Python (sharded over 16 processes) running the real aas_core_codegen code against reference models",
        }
    ],
    "checks": checks,
    "notes": "See /verif/DESIGN.md. Known findings: /verif/KNOWN_FINDINGS.txt. Replays: /verif/replays/<id>/.",
    "not_applicable": na,
}
(HERE / "MANIFEST.json").write_text(json.dumps(manifest, indent=1) + "\n")
print(f"checks={len(checks)} not_applicable={len(na)}")
