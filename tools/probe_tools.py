"""Probe external tools that some checks use; absence is reported, never fatal."""
import shutil, os
for name, path in [
    ("python", "/venv/bin/python"),
    ("node22", "/root/.nvm/versions/node/v22.22.2/bin/node"),
    ("g++", shutil.which("g++")),
    ("javac", shutil.which("javac")),
    ("xmllint", shutil.which("xmllint") or "/root/miniconda/bin/xmllint"),
]:
    print(f"{name}: {'ok ' + str(path) if path and os.path.exists(path) else 'MISSING'}")
