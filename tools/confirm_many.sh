#!/bin/bash
# tools/confirm_many.sh "<name> <Cxx>" ...   (sequential; each runs the full suite)
for x in "$@"; do set -- $x; /venv/bin/python /verif/tools/confirm_seed.py /tmp/seed/out/$1 $1 $2 2>&1 | tail -1; done
