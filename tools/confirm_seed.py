"""
Confirm a seeded change delivered by a sub-agent and file it under /verif/seeded/<name>/.

Usage: confirm_seed.py <delivery dir> <name> <property id> [--no-suite]

In a scratch clone of /repo (outside /repo and /verif, removed afterwards):
  1. the demonstration passes without the change,
  2. the change applies (3-way) on the current HEAD of /repo,
  3. the demonstration fails with the change,
  4. the repository's own test suite (dev/tests) still passes with the change
     (410 passed; the one known failure of the pinned tree is tolerated).
Writes patch.diff, the demonstration and meta.json into /verif/seeded/<name>/.
"""
import json
import pathlib
import re
import shutil
import subprocess
import sys
import tempfile
import time


def run(cmd, cwd, timeout=7200):
    proc = subprocess.run(cmd, cwd=cwd, shell=True, capture_output=True, text=True, timeout=timeout)
    return proc.returncode, (proc.stdout + proc.stderr)


def main() -> int:
    delivery = pathlib.Path(sys.argv[1])
    name = sys.argv[2]
    prop = sys.argv[3]
    with_suite = "--no-suite" not in sys.argv

    patch = delivery / "patch.diff"
    demo = delivery / "demo.py"
    assert patch.exists() and demo.exists(), delivery

    scratch = pathlib.Path(tempfile.mkdtemp(prefix=f"confirm-{name}-", dir="/tmp"))
    clone = scratch / "repo"
    meta = {"property": prop, "name": name, "confirmed_at": time.strftime("%Y-%m-%d %H:%M:%S")}
    try:
        rc, out = run(f"git clone -q --shared /repo {clone}", cwd="/tmp")
        assert rc == 0, out
        head = run("git rev-parse --short HEAD", cwd=clone)[1].strip()
        meta["repo_head"] = head

        rc_without, out_without = run(f"/venv/bin/python {demo}", cwd=clone, timeout=1800)
        meta["demo_without_change"] = {"exit": rc_without, "tail": out_without[-400:]}

        rc, out = run(f"git apply --3way {patch}", cwd=clone)
        meta["apply"] = {"exit": rc, "out": out[-300:]}
        if rc != 0:
            print(f"{name}: patch does not apply on {head}: {out}")
            meta["verdict"] = "patch-does-not-apply"
        else:
            rc_with, out_with = run(f"/venv/bin/python {demo}", cwd=clone, timeout=1800)
            meta["demo_with_change"] = {"exit": rc_with, "tail": out_with[-600:]}
            if with_suite:
                start = time.time()
                rc, out = run(
                    "/venv/bin/python -m pytest -q -p no:cacheprovider --timeout=9000 -n 6 dev/tests",
                    cwd=clone,
                    timeout=4 * 3600,
                )
                tail = out[-1500:]
                match = re.search(r"(?:(\d+) failed, )?(\d+) passed", tail)
                failed = int(match.group(1) or 0) if match else -1
                passed = int(match.group(2)) if match else -1
                failures = re.findall(r"^FAILED (\S+)", out, flags=re.M)
                meta["suite"] = {
                    "cmd": "pytest dev/tests",
                    "passed": passed,
                    "failed": failed,
                    "failures": failures,
                    "wall_s": round(time.time() - start),
                }
                tolerated = {"dev/tests/test_main.py::Test_cpp::test_expected_aas_core_meta_v3"}
                suite_ok = passed >= 410 and set(failures) <= tolerated
            else:
                suite_ok = None
                meta["suite"] = "not run here (see notes of the sub-agent)"
            ok = rc_without == 0 and rc_with != 0 and suite_ok is not False
            meta["verdict"] = "confirmed" if ok else "NOT-confirmed"
    finally:
        shutil.rmtree(scratch, ignore_errors=True)

    target = pathlib.Path("/verif/seeded") / name
    target.mkdir(parents=True, exist_ok=True)
    shutil.copy(patch, target / "patch.diff")
    shutil.copy(demo, target / "demo.py")
    if (delivery / "notes.md").exists():
        shutil.copy(delivery / "notes.md", target / "notes.md")
    existing = {}
    if (target / "meta.json").exists():
        existing = json.loads((target / "meta.json").read_text())
    existing.update(meta)
    (target / "meta.json").write_text(json.dumps(existing, indent=1) + "\n")
    print(f"{name}: {meta['verdict']} suite={meta.get('suite')}")
    return 0


if __name__ == "__main__":
    sys.exit(main())
