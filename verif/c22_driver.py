"""
Subprocess side of C22: run ``main.execute`` for several (target, output-dir history)
configurations in one interpreter (whose PYTHONHASHSEED the parent chose) and print the
observations as JSON.

argv: <job.json>; the job = {"model": path, "runs": [{"target", "snippets", "output",
"relative": bool, "glob": null | "reverse" | ["perm", k], "pre": null | "self" | "stale"}]}
"""
from __future__ import annotations

import hashlib
import io
import itertools
import json
import os
import pathlib
import sys
from typing import Any, Dict, List


def tree(root: pathlib.Path) -> Dict[str, str]:
    result = {}  # type: Dict[str, str]
    if not root.exists():
        return result
    for dirpath, _, filenames in os.walk(root):
        for filename in filenames:
            path = pathlib.Path(dirpath) / filename
            result[path.relative_to(root).as_posix()] = hashlib.sha256(path.read_bytes()).hexdigest()
    return result


def main() -> int:
    job = json.loads(pathlib.Path(sys.argv[1]).read_text(encoding="utf-8"))
    import tempfile

    tempfile.tempdir = job["tmp"]

    from aas_core_codegen import main as codegen_main

    original_glob = pathlib.Path.glob
    observations = []  # type: List[Any]
    for run in job["runs"]:
        order = run.get("glob")

        def patched(self: pathlib.Path, pattern: str, *args: Any, **kwargs: Any) -> Any:
            listing = sorted(original_glob(self, pattern, *args, **kwargs))
            if order == "reverse":
                listing.reverse()
            elif isinstance(order, list) and order[0] == "rotate":
                k = order[1] % max(1, len(listing))
                listing = listing[k:] + listing[:k]
            elif isinstance(order, list) and order[0] == "perm":
                files = [p for p in listing if p.is_file()]
                others = [p for p in listing if not p.is_file()]
                perms = list(itertools.islice(itertools.permutations(files), order[1], order[1] + 1))
                listing = others + list(perms[0] if perms else files)
            return iter(listing)

        if order is not None:
            pathlib.Path.glob = patched  # type: ignore
        output = pathlib.Path(run["output"])
        model = pathlib.Path(job["model"])
        snippets = pathlib.Path(run["snippets"])
        cwd = os.getcwd()
        try:
            if run.get("relative"):
                os.chdir(str(output.parent))
                output_arg = pathlib.Path(output.name)
            else:
                output_arg = output
            params = codegen_main.Parameters(
                model_path=model,
                target=codegen_main.Target(run["target"]),
                snippets_dir=snippets,
                output_dir=output_arg,
            )
            stdout, stderr = io.StringIO(), io.StringIO()
            try:
                rc = codegen_main.execute(params, stdout=stdout, stderr=stderr)
                crash = None
            except Exception as exc:  # the business of C01/C02; reported as an observation
                rc = None
                crash = f"{type(exc).__name__}: {exc}"[:300]
        finally:
            os.chdir(cwd)
            pathlib.Path.glob = original_glob  # type: ignore
        observations.append(
            {
                "rc": rc,
                "crash": crash,
                "stdout": stdout.getvalue().replace(str(output_arg), "<OUT>"),
                "stderr": stderr.getvalue(),
                "tree": tree(output),
            }
        )
    sys.stdout.write(json.dumps(observations))
    return 0


if __name__ == "__main__":
    sys.exit(main())
