"""G-MM-GEN: constructive small-scope meta-models (DESIGN.md 2.2) — property shapes."""
from __future__ import annotations

from typing import Any, Dict, Iterator, List, Optional, Tuple

INNER_TYPES = [
    "bool",
    "int",
    "float",
    "str",
    "bytearray",
    "Color",  # enumeration
    "Tag",  # constrained primitive (str)
    "Level",  # constrained primitive (int)
    "Item",  # concrete class without descendants
    "Basis",  # abstract class with model type
    "Mid",  # concrete class with a descendant
    "Lonely",  # abstract class without any descendant
    "Blob",  # constrained primitive (bytearray)
]
WRAPS = ["{t}", "Optional[{t}]", "List[{t}]", "Optional[List[{t}]]"]

PRELUDE = '''\
class Color(Enum):
    """Represent a color."""

    Red = "red"
    Green = "green-ish"


@invariant(lambda self: len(self) >= 1, "Tag must not be empty.")
class Tag(str, DBC):
    """Represent a tag."""


@invariant(lambda self: self >= 0, "Level must be non-negative.")
class Level(int, DBC):
    """Represent a level."""


@invariant(lambda self: len(self) >= 0, "Blob must have a length.")
class Blob(bytearray, DBC):
    """Represent a blob."""


@abstract
class Lonely(DBC):
    """Represent an abstract class which nobody implements."""

    remark_text: str

    def __init__(self, remark_text: str) -> None:
        self.remark_text = remark_text


class Item(DBC):
    """Represent an item."""

    count: int

    label: Optional[str]

    def __init__(self, count: int, label: Optional[str] = None) -> None:
        self.count = count
        self.label = label


@abstract
@serialization(with_model_type=True)
class Basis(DBC):
    """Represent a basis."""

    name: str

    def __init__(self, name: str) -> None:
        self.name = name


class Mid(Basis):
    """Represent something in the middle."""

    size: int

    def __init__(self, name: str, size: int) -> None:
        Basis.__init__(self, name)
        self.size = size


class Leaf(Mid):
    """Represent a leaf."""

    flag: bool

    def __init__(self, name: str, size: int, flag: bool) -> None:
        Mid.__init__(self, name, size)
        self.flag = flag


class Other(Basis):
    """Represent another descendant."""

    def __init__(self, name: str) -> None:
        Basis.__init__(self, name)


'''

EPILOGUE = '''\
__version__ = "dummy"
__xml_namespace__ = "https://dummy.com"
'''


def shape_annotation(inner: str, wrap: int) -> str:
    return WRAPS[wrap].format(t=inner)


def holder_source(properties: List[Tuple[str, str]], invariants: Optional[List[Tuple[str, str]]] = None) -> str:
    """
    A model with the prelude and a class ``Holder`` with the given (name, annotation)
    properties; optional properties come last in the constructor.
    """
    required = [(n, a) for n, a in properties if not a.startswith("Optional[")]
    optional = [(n, a) for n, a in properties if a.startswith("Optional[")]
    ordered = required + optional
    lines = []  # type: List[str]
    for expr, description in invariants or []:
        lines.append(f'@invariant(lambda self: {expr}, "{description}")')
    lines.append("class Holder(DBC):")
    lines.append('    """Represent the holder."""')
    lines.append("")
    for name, annotation in ordered:
        lines.append(f"    {name}: {annotation}")
        lines.append("")
    args = [f"{n}: {a}" for n, a in required] + [f"{n}: {a} = None" for n, a in optional]
    lines.append(f"    def __init__(self, {', '.join(args)}) -> None:")
    for name, _ in ordered:
        lines.append(f"        self.{name} = {name}")
    if not ordered:
        lines.append("        pass")
    lines.append("")
    lines.append("")
    return PRELUDE + "\n".join(lines) + "\n" + EPILOGUE


def shape_models() -> Iterator[Tuple[Dict[str, Any], str]]:
    """One model per (inner type, wrap) with a single property ``value``."""
    for inner in INNER_TYPES:
        for wrap in range(len(WRAPS)):
            annotation = shape_annotation(inner, wrap)
            yield {"inner": inner, "wrap": wrap, "annotation": annotation}, holder_source(
                [("value", annotation)]
            )
    # all shapes at once
    properties = []
    for i, inner in enumerate(INNER_TYPES):
        for wrap in range(len(WRAPS)):
            properties.append((f"p{i}_{wrap}", shape_annotation(inner, wrap)))
    yield {"inner": "*", "wrap": "*", "annotation": "all"}, holder_source(properties)
