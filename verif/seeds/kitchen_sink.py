"""Provide a kitchen-sink meta-model which uses every construct once."""


@verification
def matches_ident(text: str) -> bool:
    """
    Check that :paramref:`text` is an identifier.

    :param text: to be checked
    :returns: True if the :paramref:`text` is an identifier
    """
    prefix = "[a-zA-Z]"
    pattern = f"^{prefix}[a-zA-Z0-9_]*$"
    return match(pattern, text) is not None


@verification
def matches_word(text: str) -> bool:
    """Check that :paramref:`text` is a lowercase word."""
    pattern = "^[a-z]+$"
    return match(pattern, text) is not None


@verification
def is_short(text: str) -> bool:
    """Check that :paramref:`text` is short."""
    return len(text) < 10


class Color(Enum):
    """Represent a color."""

    Red = "red"
    """Be red."""

    Green = "green"


Warm_colors: Set[Color] = constant_set(
    values=[Color.Red], description="Colors which are warm."
)

All_colors: Set[Color] = constant_set(
    values=[Color.Red, Color.Green],
    description="All the colors, see :const:`Warm_colors`.",
    superset_of=[Warm_colors],
)

Magic: int = constant_int(value=42, description="The magic number.")

Greeting: str = constant_str(value="hello")

Ratio: float = constant_float(value=0.5, description="A ratio.")

Enabled: bool = constant_bool(value=True)

Keywords: Set[str] = constant_set(values=["a", "b"])


@invariant(lambda self: len(self) >= 1, "The value must not be empty.")
class Non_empty(str, DBC):
    """Represent a non-empty string."""


@invariant(lambda self: matches_ident(self), "The value must be an identifier.")
class Ident(Non_empty, DBC):
    """Represent an identifier."""


@abstract
@serialization(with_model_type=True)
@invariant(
    lambda self: not (self.name is not None) or len(self.name) <= 10,
    "Name must be at most 10 characters.",
)
class Thing(DBC):
    """
    Represent a thing.

    :constraint KS-1:

        The :attr:`name` is short, see :class:`Ident`.
    """

    name: Optional[Ident]
    """Name of the thing"""

    def __init__(self, name: Optional[Ident] = None) -> None:
        self.name = name


class Item(DBC):
    """Represent an item."""

    count: int
    """Number of the pieces"""

    label: str

    def __init__(self, count: int, label: str) -> None:
        self.count = count
        self.label = label


@invariant(lambda self: self.color in All_colors, "Color must be known.")
@invariant(
    lambda self: all(item.count >= 0 for item in self.items),
    "Counts must be non-negative.",
)
@invariant(
    lambda self: all(self.numbers[i] >= 0 for i in range(0, len(self.numbers))),
    "Numbers must be non-negative.",
)
@invariant(
    lambda self: not (self.keyword is not None) or self.keyword in Keywords,
    "Keyword must be known.",
)
@invariant(
    lambda self: not (self.keyword is not None) or matches_word(self.keyword),
    "Keyword must be a word.",
)
@invariant(
    lambda self: is_short(self.title) and len(self.items) >= 1,
    "Title must be short and items non-empty.",
)
@invariant(
    lambda self: (self.ratio > 0.5 or self.flag) and not (self.ratio == 2.0),
    "Ratio and flag must agree.",
)
@invariant(
    lambda self: any(item.label == self.title for item in self.items)
    or len(self.items) + 1 > Magic - 40,
    "Some label must match the title.",
)
class Parcel(Thing):
    """Represent a parcel of :class:`Item`'s."""

    items: List["Item"]
    """Items in the parcel"""

    color: Color

    title: Non_empty

    ratio: float

    flag: bool

    numbers: List[int]

    keyword: Optional[str]

    data: Optional[bytearray]

    owner: Optional["Thing"]

    def __init__(
        self,
        items: List["Item"],
        color: Color,
        title: Non_empty,
        ratio: float,
        flag: bool,
        numbers: List[int],
        name: Optional[Ident] = None,
        keyword: Optional[str] = None,
        data: Optional[bytearray] = None,
        owner: Optional["Thing"] = None,
    ) -> None:
        Thing.__init__(self, name=name)
        self.items = items
        self.color = color
        self.title = title
        self.ratio = ratio
        self.flag = flag
        self.numbers = numbers
        self.keyword = keyword
        self.data = data
        self.owner = owner


__version__ = "dummy"
__xml_namespace__ = "https://dummy.com"
