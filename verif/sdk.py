"""
Shared machinery for the properties about *generated artefacts* (C07-C14, C29, C30):

* a tiny description language of meta-models (``Spec``) with a printer to source text and
  an independent reference semantics (plain Python) for types, instances and invariants,
* generation + import of the Python SDK under a unique package name,
* enumeration of boundary instances (G-INST of DESIGN.md).

The description is the reference model; nothing in here reads the tool's symbol table.
"""
from __future__ import annotations

import ast
import enum
import importlib
import itertools
import pathlib
import shutil
import sys
import types
from typing import Any, Dict, Iterator, List, Optional, Sequence, Tuple

from verif import harness

# --------------------------------------------------------------------------------------
# Description of a meta-model
# --------------------------------------------------------------------------------------

PRIMITIVES = ("bool", "int", "float", "str", "bytearray")


class Cls:
    def __init__(
        self,
        name: str,
        props: Sequence[Tuple[str, str]] = (),
        bases: Sequence[str] = (),
        abstract: bool = False,
        model_type: bool = False,
        invariants: Sequence[Tuple[str, str]] = (),
        doc: str = "",
        extra_body: str = "",
    ) -> None:
        self.name = name
        self.extra_body = extra_body  #: verbatim methods, indented by 4 spaces
        self.props = list(props)  #: own properties (name, annotation)
        self.bases = list(bases)
        self.abstract = abstract
        self.model_type = model_type  #: ``@serialization(with_model_type=True)``
        self.invariants = list(invariants)  #: (lambda body over ``self``, description)
        self.doc = doc or f"Represent {name.lower().replace('_', ' ')}."


class CPrim:
    def __init__(
        self,
        name: str,
        base: str,
        invariants: Sequence[Tuple[str, str]] = (),
        parent: Optional[str] = None,
    ) -> None:
        self.name = name
        self.base = base  #: the primitive it constrains
        self.parent = parent  #: another constrained primitive it inherits from
        self.invariants = list(invariants)


class Spec:
    """A meta-model: enumerations, constrained primitives, classes, verbatim blocks."""

    def __init__(
        self,
        enums: Optional[Dict[str, List[Tuple[str, str]]]] = None,
        cprims: Sequence[CPrim] = (),
        classes: Sequence[Cls] = (),
        verbatim_before: str = "",
        verbatim_after: str = "",
    ) -> None:
        self.enums = dict(enums or {})
        self.cprims = list(cprims)
        self.classes = list(classes)
        self.verbatim_before = verbatim_before  #: verification functions, constants
        self.verbatim_after = verbatim_after

    # -- structure (the reference model of inheritance: C05 checks the tool's) --------
    def cls(self, name: str) -> Cls:
        for cls in self.classes:
            if cls.name == name:
                return cls
        raise KeyError(name)

    def cprim(self, name: str) -> Optional[CPrim]:
        for cprim in self.cprims:
            if cprim.name == name:
                return cprim
        return None

    def ancestors(self, name: str) -> List[str]:
        result = []  # type: List[str]
        for base in self.cls(name).bases:
            for ancestor in self.ancestors(base) + [base]:
                if ancestor not in result:
                    result.append(ancestor)
        return result

    def descendants(self, name: str) -> List[str]:
        return [c.name for c in self.classes if name in self.ancestors(c.name)]

    def concrete_self_and_descendants(self, name: str) -> List[str]:
        names = [name] + self.descendants(name)
        return [n for n in names if not self.cls(n).abstract]

    def all_props(self, name: str) -> List[Tuple[str, str]]:
        """Inherited properties first (in ancestor order), then own ones."""
        result = []  # type: List[Tuple[str, str]]
        for ancestor in self.ancestors(name):
            result.extend(self.cls(ancestor).props)
        result.extend(self.cls(name).props)
        return result

    def all_invariants(self, name: str) -> List[Tuple[str, str]]:
        result = []  # type: List[Tuple[str, str]]
        for ancestor in self.ancestors(name):
            result.extend(self.cls(ancestor).invariants)
        result.extend(self.cls(name).invariants)
        return result

    def cprim_invariants(self, name: str) -> List[Tuple[str, str]]:
        cprim = self.cprim(name)
        assert cprim is not None
        inherited = self.cprim_invariants(cprim.parent) if cprim.parent else []
        return inherited + cprim.invariants

    def cprim_base(self, name: str) -> str:
        cprim = self.cprim(name)
        assert cprim is not None
        return cprim.base

    def has_model_type(self, name: str) -> bool:
        return any(self.cls(n).model_type for n in self.ancestors(name) + [name])

    def ctor_order(self, name: str) -> List[Tuple[str, str]]:
        """Constructor arguments as rendered: required first, then optional ones."""
        props = self.all_props(name)
        required = [p for p in props if not p[1].startswith("Optional[")]
        optional = [p for p in props if p[1].startswith("Optional[")]
        return required + optional


def _docstring(text: str, indent: str) -> str:
    return f'{indent}"""{text}"""'


def render(spec: Spec) -> str:
    """Print the meta-model as source text of the Python subset."""
    out = []  # type: List[str]
    if spec.verbatim_before:
        out.append(spec.verbatim_before.rstrip("\n") + "\n\n")
    for name, literals in spec.enums.items():
        out.append(f"class {name}(Enum):")
        out.append(_docstring(f"Represent {name.lower()}.", "    "))
        out.append("")
        for literal_name, literal_value in literals:
            out.append(f"    {literal_name} = {literal_value!r}")
        out.append("\n")
    for cprim in spec.cprims:
        for body, description in cprim.invariants:
            out.append(f"@invariant(lambda self: {body}, {description!r})")
        parent = cprim.parent if cprim.parent else cprim.base
        out.append(f"class {cprim.name}({parent}, DBC):")
        out.append(_docstring(f"Represent {cprim.name.lower()}.", "    "))
        out.append("\n")
    for cls in spec.classes:
        if cls.abstract:
            out.append("@abstract")
        if cls.model_type:
            out.append("@serialization(with_model_type=True)")
        for body, description in cls.invariants:
            out.append(f"@invariant(lambda self: {body}, {description!r})")
        bases = ", ".join(cls.bases) if cls.bases else "DBC"
        out.append(f"class {cls.name}({bases}):")
        out.append(_docstring(cls.doc, "    "))
        out.append("")
        for prop_name, annotation in cls.props:
            out.append(f"    {prop_name}: {annotation}")
            out.append("")
        ordered = spec.ctor_order(cls.name)
        args = ["self"] + [
            f"{n}: {a} = None" if a.startswith("Optional[") else f"{n}: {a}" for n, a in ordered
        ]
        out.append(f"    def __init__({', '.join(args)}) -> None:")
        body_lines = []  # type: List[str]
        for base in cls.bases:
            base_args = ", ".join(n for n, _ in spec.ctor_order(base))
            body_lines.append(
                f"        {base}.__init__(self, {base_args})" if base_args else f"        {base}.__init__(self)"
            )
        for prop_name, _ in cls.props:
            body_lines.append(f"        self.{prop_name} = {prop_name}")
        if not body_lines:
            body_lines.append("        pass")
        out.extend(body_lines)
        if cls.extra_body:
            out.append("")
            out.append(cls.extra_body.rstrip("\n"))
        out.append("\n")
    if spec.verbatim_after:
        out.append(spec.verbatim_after.rstrip("\n") + "\n\n")
    out.append('__version__ = "dummy"')
    out.append('__xml_namespace__ = "https://dummy.com"')
    return "\n".join(out) + "\n"


# --------------------------------------------------------------------------------------
# Types
# --------------------------------------------------------------------------------------

Type = Tuple[Any, ...]  # ("prim", name) | ("enum", n) | ("cprim", n) | ("class", n) | ("opt", T) | ("list", T)


def parse_type(spec: Spec, annotation: str) -> Type:
    node = ast.parse(annotation, mode="eval").body

    def convert(node: ast.AST) -> Type:
        if isinstance(node, ast.Name):
            name = node.id
            if name in PRIMITIVES:
                return ("prim", name)
            if name in spec.enums:
                return ("enum", name)
            if spec.cprim(name) is not None:
                return ("cprim", name)
            return ("class", name)
        if isinstance(node, ast.Constant) and isinstance(node.value, str):
            return convert(ast.parse(node.value, mode="eval").body)
        assert isinstance(node, ast.Subscript), ast.dump(node)
        assert isinstance(node.value, ast.Name)
        inner = convert(node.slice)
        return ("opt", inner) if node.value.id == "Optional" else ("list", inner)

    return convert(node)


# --------------------------------------------------------------------------------------
# Reference instances: plain data
# --------------------------------------------------------------------------------------
#
# A reference value is: bool | int | float | str | bytes | ("enum", E, literal name) |
# list | None | {"__class__": name, prop: value, ...}

BOOLS = [False, True]
INTS = [0, 1, -1, 2**63 - 1, -(2**63)]
FLOATS = [0.0, -0.0, 1.5, 1e300, 5e-324, -2.5]
STRS = ["a", "", "abc", " a ", "\r", "\r\n", "<&>\"'", "é", "\U0001F600", "]]>", "\t", "\n", "x" * 70]
STRS_NON_XML = ["\x00", "\x01", "\x1f", "\ufffe", "\uffff"]
BYTES = [b"\x01\x02", b"", b"\x00", b"\xff\xfe\xfd", bytes(range(9)), b"\xfb\xff\xbf"]


def primitive_menu(name: str, with_non_xml: bool = False) -> List[Any]:
    if name == "bool":
        return list(BOOLS)
    if name == "int":
        return list(INTS)
    if name == "float":
        return list(FLOATS)
    if name == "str":
        return list(STRS) + (list(STRS_NON_XML) if with_non_xml else [])
    if name == "bytearray":
        return list(BYTES)
    raise ValueError(name)


def default_value(spec: Spec, typ: Type, depth: int = 0) -> Any:
    """The value used in base instances (the simplest conforming value)."""
    kind = typ[0]
    if kind == "prim":
        return {"bool": True, "int": 1, "float": 1.5, "str": "a", "bytearray": b"\x01\x02"}[typ[1]]
    if kind == "enum":
        return ("enum", typ[1], spec.enums[typ[1]][0][0])
    if kind == "cprim":
        return default_value(spec, ("prim", spec.cprim_base(typ[1])))
    if kind == "opt":
        return None
    if kind == "list":
        return [default_value(spec, typ[1], depth + 1)]
    if kind == "class":
        concrete = spec.concrete_self_and_descendants(typ[1])
        assert concrete, f"no concrete class for {typ[1]}"
        return base_instance(spec, concrete[0], depth + 1)
    raise ValueError(typ)


def base_instance(spec: Spec, cls_name: str, depth: int = 0) -> Dict[str, Any]:
    assert depth < 6, "recursive model"
    instance = {"__class__": cls_name}  # type: Dict[str, Any]
    for prop_name, annotation in spec.all_props(cls_name):
        instance[prop_name] = default_value(spec, parse_type(spec, annotation), depth)
    return instance


def values_of(spec: Spec, typ: Type, with_non_xml: bool = False, depth: int = 0) -> List[Any]:
    """The boundary menu of a type (G-INST)."""
    kind = typ[0]
    if kind == "prim":
        return primitive_menu(typ[1], with_non_xml)
    if kind == "enum":
        return [("enum", typ[1], literal[0]) for literal in spec.enums[typ[1]]]
    if kind == "cprim":
        return primitive_menu(spec.cprim_base(typ[1]), with_non_xml)
    if kind == "opt":
        return [None] + values_of(spec, typ[1], with_non_xml, depth)
    if kind == "class":
        result = []
        for concrete in spec.concrete_self_and_descendants(typ[1]):
            result.append(base_instance(spec, concrete, depth + 1))
        return result
    if kind == "list":
        inner = values_of(spec, typ[1], with_non_xml, depth + 1)
        result = [[]]  # type: List[Any]
        result.extend([value] for value in inner)
        if len(inner) >= 2:
            result.append([inner[0], inner[1]])
            result.append([inner[1], inner[0]])
            result.append([inner[-1], inner[0], inner[-1]])
        else:
            result.append([inner[0], inner[0]])
        return result
    raise ValueError(typ)


def variations(spec: Spec, cls_name: str, bound: int = 1, with_non_xml: bool = False) -> Iterator[Dict[str, Any]]:
    """The base instance and all instances at distance <= bound (properties varied)."""
    base = base_instance(spec, cls_name)
    yield base
    props = spec.all_props(cls_name)
    menus = {
        name: values_of(spec, parse_type(spec, annotation), with_non_xml)
        for name, annotation in props
    }
    for name, _ in props:
        for value in menus[name]:
            if _same(value, base[name]):
                continue
            variant = dict(base)
            variant[name] = value
            yield variant
    if bound >= 2:
        for (name_a, _), (name_b, _) in itertools.combinations(props, 2):
            for value_a in menus[name_a]:
                if _same(value_a, base[name_a]):
                    continue
                for value_b in menus[name_b]:
                    if _same(value_b, base[name_b]):
                        continue
                    variant = dict(base)
                    variant[name_a] = value_a
                    variant[name_b] = value_b
                    yield variant


def _same(left: Any, right: Any) -> bool:
    return equal_values(left, right)


def equal_values(left: Any, right: Any) -> bool:
    """Deep equality of reference values (floats by bit pattern; bool is not int)."""
    if type(left) is not type(right):
        return False
    if isinstance(left, float):
        import struct

        return struct.pack("<d", left) == struct.pack("<d", right)
    if isinstance(left, list):
        return len(left) == len(right) and all(equal_values(a, b) for a, b in zip(left, right))
    if isinstance(left, dict):
        return list(left.keys()) == list(right.keys()) and all(
            equal_values(left[k], right[k]) for k in left
        )
    return left == right


def is_xml_text(text: str) -> bool:
    """Only characters of the XML 1.0 ``Char`` production."""
    for ch in text:
        point = ord(ch)
        if point in (0x9, 0xA, 0xD):
            continue
        if 0x20 <= point <= 0xD7FF or 0xE000 <= point <= 0xFFFD or 0x10000 <= point <= 0x10FFFF:
            continue
        return False
    return True


def xml_representable(value: Any) -> bool:
    if isinstance(value, str):
        return is_xml_text(value)
    if isinstance(value, list):
        return all(xml_representable(item) for item in value)
    if isinstance(value, dict):
        return all(xml_representable(v) for k, v in value.items() if k != "__class__")
    return True


def show(value: Any) -> Any:
    """JSON-able rendering of a reference value (for replay files)."""
    if isinstance(value, bytes):
        return {"__bytes__": list(value)}
    if isinstance(value, float):
        return {"__float__": value.hex()}
    if isinstance(value, tuple):
        return {"__enum__": [value[1], value[2]]}
    if isinstance(value, list):
        return [show(item) for item in value]
    if isinstance(value, dict):
        return {key: show(item) for key, item in value.items()}
    if isinstance(value, str):
        return {"__str__": [ord(c) for c in value]}
    return value


def unshow(value: Any) -> Any:
    if isinstance(value, dict):
        if "__bytes__" in value:
            return bytes(value["__bytes__"])
        if "__float__" in value:
            return float.fromhex(value["__float__"])
        if "__enum__" in value:
            return ("enum", value["__enum__"][0], value["__enum__"][1])
        if "__str__" in value:
            return "".join(chr(p) for p in value["__str__"])
        return {key: unshow(item) for key, item in value.items()}
    if isinstance(value, list):
        return [unshow(item) for item in value]
    return value


# --------------------------------------------------------------------------------------
# Reference semantics of invariants: plain Python objects
# --------------------------------------------------------------------------------------


class RefEnv:
    """
    Python objects to evaluate the invariant lambdas of a ``Spec`` *as Python*: real
    ``enum.Enum`` classes, ``SimpleNamespace`` instances, the verbatim functions and
    constants executed with the meta-model's own marker functions stubbed.
    """

    def __init__(self, spec: Spec) -> None:
        import re

        self.spec = spec
        self.enums = {
            name: enum.Enum(name, {lit: val for lit, val in literals})  # type: ignore
            for name, literals in spec.enums.items()
        }
        namespace = dict(self.enums)  # type: Dict[str, Any]

        def match(pattern: str, text: str) -> Any:
            return re.match(pattern, text)

        def verification(func: Any) -> Any:
            return func

        def implementation_specific(func: Any) -> Any:
            return func

        def constant_set(values: Any, description: Any = None, superset_of: Any = None, reference_in_the_book: Any = None) -> Any:
            return set(values)

        def constant_value(value: Any, description: Any = None, reference_in_the_book: Any = None) -> Any:
            return value

        namespace.update(
            match=match,
            verification=verification,
            implementation_specific=implementation_specific,
            constant_set=constant_set,
            constant_int=constant_value,
            constant_str=constant_value,
            constant_float=constant_value,
            constant_bool=constant_value,
            constant_bytearray=constant_value,
            Set=set,
            List=list,
            Optional=Optional,
            Enum=enum.Enum,
        )
        for block in (spec.verbatim_before, spec.verbatim_after):
            if block:
                exec(compile("from __future__ import annotations\n" + block, "<verbatim>", "exec"), namespace)
        self.namespace = namespace

    def to_object(self, value: Any) -> Any:
        if isinstance(value, tuple) and value and value[0] == "enum":
            return self.enums[value[1]][value[2]]
        if isinstance(value, list):
            return [self.to_object(item) for item in value]
        if isinstance(value, dict):
            obj = types.SimpleNamespace()
            obj.__dict__["__class_name__"] = value["__class__"]
            for key, item in value.items():
                if key != "__class__":
                    setattr(obj, key, self.to_object(item))
            return obj
        if isinstance(value, bytes):
            return bytearray(value)
        return value

    def eval_invariant(self, body: str, self_object: Any) -> Any:
        function = eval(f"lambda self: {body}", self.namespace)
        return function(self_object)


# --------------------------------------------------------------------------------------
# The generated Python SDK
# --------------------------------------------------------------------------------------

_COUNTER = itertools.count()


def py_class_name(name: str) -> str:
    """The documented convention of the Python SDK: ``Leaf_node`` -> ``LeafNode``."""
    return "".join(part[:1].upper() + part[1:] for part in name.split("_"))


class PythonSdk:
    """An imported generated Python SDK (removed from ``sys.modules`` by ``close``)."""

    def __init__(self, package: str, root: pathlib.Path) -> None:
        self.package = package
        self.root = root
        sys.path.insert(0, str(root))
        try:
            self.types = importlib.import_module(f"{package}.types")
            self.jsonization = importlib.import_module(f"{package}.jsonization")
            self.xmlization = importlib.import_module(f"{package}.xmlization")
            self.verification = importlib.import_module(f"{package}.verification")
            self.constants = importlib.import_module(f"{package}.constants")
            self.stringification = importlib.import_module(f"{package}.stringification")
        finally:
            sys.path.remove(str(root))

    def close(self) -> None:
        for name in list(sys.modules):
            if name == self.package or name.startswith(self.package + "."):
                del sys.modules[name]

    # -- reference value -> SDK object -------------------------------------------------
    def build(self, spec: Spec, value: Any) -> Any:
        if isinstance(value, tuple) and value and value[0] == "enum":
            # The literal is found by its *value*: how literal names are spelled in the
            # SDK is the generator's business (C21), the values are the meta-model's.
            declared = dict(spec.enums[value[1]])[value[2]]
            members = [m for m in getattr(self.types, py_class_name(value[1])) if m.value == declared]
            assert len(members) == 1, f"enum literal {value} not found by value"
            return members[0]
        if isinstance(value, list):
            return [self.build(spec, item) for item in value]
        if isinstance(value, dict):
            cls = getattr(self.types, py_class_name(value["__class__"]))
            kwargs = {k: self.build(spec, v) for k, v in value.items() if k != "__class__"}
            return cls(**kwargs)
        return value

    @staticmethod
    def spec_name(spec: Spec, obj: Any) -> str:
        """The meta-model name of the class of an SDK instance."""
        for cls in spec.classes:
            if py_class_name(cls.name) == type(obj).__name__:
                return cls.name
        return type(obj).__name__

    # -- SDK object -> reference value (by the description, not by the SDK's reflection) --
    def unbuild(self, spec: Spec, obj: Any) -> Any:
        if obj is None or isinstance(obj, (bool, int, float, str)):
            return obj
        if isinstance(obj, (bytes, bytearray)):
            return bytes(obj)
        if isinstance(obj, enum.Enum):
            enum_name = [e for e in spec.enums if py_class_name(e) == type(obj).__name__]
            if not enum_name:
                return ("enum", type(obj).__name__, f"<{obj.name}>")
            names = [n for n, v in spec.enums[enum_name[0]] if v == obj.value]
            return ("enum", enum_name[0], names[0] if names else f"<{obj.name}>")
        if isinstance(obj, list):
            return [self.unbuild(spec, item) for item in obj]
        name = self.spec_name(spec, obj)
        result = {"__class__": name}  # type: Dict[str, Any]
        for prop_name, _ in spec.all_props(name):
            result[prop_name] = self.unbuild(spec, getattr(obj, prop_name))
        return result


def generate(
    text: str,
    target: str,
    base: pathlib.Path,
    root_class: str,
    package: Optional[str] = None,
    extra_snippets: Optional[Dict[str, str]] = None,
) -> Tuple[int, str, str, pathlib.Path]:
    """Run ``main.execute`` for ``target``; returns (rc, stdout, stderr, output dir)."""
    base.mkdir(parents=True, exist_ok=True)
    model_path = base / "model.py"
    model_path.write_text(text, encoding="utf-8")
    snippets = base / f"snippets-{target}"
    if snippets.exists():
        shutil.rmtree(snippets)
    harness.synth_snippets(target, snippets, root_class)
    if target == "python" and package is not None:
        (snippets / "qualified_module_name.txt").write_text(package, encoding="utf-8")
    for key, content in (extra_snippets or {}).items():
        path = snippets / key
        path.parent.mkdir(parents=True, exist_ok=True)
        path.write_text(content, encoding="utf-8")
    out = base / f"out-{target}"
    if out.exists():
        shutil.rmtree(out)
    rc, stdout, stderr = harness.execute(model_path, target, snippets, out)
    return rc, stdout, stderr, out


def python_sdk(
    text: str,
    base: pathlib.Path,
    root_class: str,
    extra_snippets: Optional[Dict[str, str]] = None,
) -> Tuple[Optional[PythonSdk], str]:
    """Generate and import the Python SDK of the model; (None, stderr) if rejected."""
    package = f"vsdk{next(_COUNTER)}_{abs(hash(text)) % 100000}"
    rc, _, stderr, out = generate(text, "python", base, root_class, package, extra_snippets)
    if rc != 0:
        return None, stderr
    (out / package / "__init__.py").write_text("", encoding="utf-8")
    return PythonSdk(package, out), ""
