"""C07 — type-checked invariants cannot fail at run time."""
from __future__ import annotations

import shutil
from typing import Any, Dict, List, Optional, Tuple

from verif import gen_inv, sdk
from verif.core import CaseTimeout, Result, Violation, short_exc, time_limit, worker_tmp

ID = "C07"

META = {
    "technique": (
        "exhaustive enumeration of invariant expressions (every production of "
        "parse/tree.py over typed and mistyped operands) up to a depth; each one through "
        "the real front end and the real Python transpiler (type inference); every "
        "accepted expression is evaluated with Python semantics on an exhaustive menu of "
        "type-conforming instances"
    ),
    "rule": (
        "class Holder with properties bool, int, float, str, bytearray, enumeration, "
        "class, Optional[str|int|class|List[class]], List[int|class|str], constrained str; "
        "29 operand atoms (members, nested members, indexing, len, constants, members "
        "behind an Optional); productions: atom alone, is None / is not None, not, every "
        "pair of atoms under == and < (all six comparators for equally typed pairs), "
        "membership in three constant sets, calls of two pattern functions / two "
        "transpilable functions / len, indexing, member access, all/any over for-each and "
        "for-range (with and without filter), and/or over nine atoms, +/- over ten atoms, "
        "45 guard x consequent pairs in seven implication spellings; depth 2: and/or/"
        "implication/not-and over 14 level-1 expressions, two ternary shapes over 9; "
        "accepted = front end accepts and python generate_verification succeeds; "
        "instances: two base instances (all Optionals set / all None) and all their "
        "single-property variations over boundary menus (62 instances); oracle: the "
        "lambda yields a bool and raises at most IndexError; non-trivial = accepted "
        "expressions"
    ),
    "bounds": {
        "quick": "depth 1 incl. the precedence families (6 228 expressions)",
        "thorough": "depth 2 (8 458 expressions)",
    },
    "assumptions": [
        "`accepted` includes the Python transpiler, since type inference runs there "
        "(the lenient reading: fewer accepted expressions)",
        "Python semantics = eval of the very lambda text with real enum classes, "
        "namespaces for instances, re.match for `match`",
    ],
}

SLICES = {"quick": 48, "thorough": 64}


def shards(tier: str) -> List[Any]:
    return [(tier, index, SLICES[tier]) for index in range(SLICES[tier])]


def judge(env: sdk.RefEnv, body: str, instances: List[Any]) -> Optional[Tuple[str, str, Any]]:
    """(failure, message, instance) of the first breach, simplest instance first."""
    for instance in instances:
        obj = env.to_object(instance)
        try:
            value = env.eval_invariant(body, obj)
        except IndexError:
            continue
        except (TypeError, AttributeError) as exc:
            kind = "None-dereference" if "NoneType" in str(exc) else type(exc).__name__
            return kind, short_exc(exc)[:140], instance
        except Exception as exc:
            return f"other-{type(exc).__name__}", short_exc(exc)[:140], instance
        if not isinstance(value, bool):
            return "non-bool", f"yields {value!r:.40}", instance
    return None


def signature_of(failure: str, production: str, tags: str) -> str:
    """
    (failure kind, production family, operand class): coarse enough to be a reviewable
    list, fine enough that a None dereference is never merged with a mistyped operand.
    """
    family = production.split(":")[0]
    parts = [t.split("-via-")[0] for t in tags.split(",")]
    if len(parts) == 2:
        operands = "same-types" if parts[0] == parts[1] else "different-types"
    elif len(parts) == 1:
        operands = "optional-operand" if parts[0].startswith("opt-") or "-via-opt" in tags else "plain-operand"
    else:
        operands = "n-ary"
    return f"{failure}:{family}:{operands}"


def accept(body: str, base: Any) -> Tuple[str, Optional[str]]:
    """('accepted' | 'rejected-front-end' | 'rejected-transpiler' | 'crash', detail)."""
    spec = gen_inv.base_spec([(body, "The invariant must hold.")])
    text = gen_inv.model_text(spec)
    try:
        symbol_table, error = gen_inv.front_end(text, base)
    except Exception as exc:
        return "crash", short_exc(exc)
    if symbol_table is None:
        return "rejected-front-end", error
    try:
        _, errors = gen_inv.generate_light(symbol_table, base, with_import=False)
    except Exception as exc:
        return "crash", short_exc(exc)
    if errors is not None:
        return "rejected-transpiler", errors
    return "accepted", None


def work(shard: Any) -> Result:
    tier, index, slices = shard
    result = Result()
    depth = 1 if tier == "quick" else 2
    base = worker_tmp() / "c07"
    env = gen_inv.ref_env(gen_inv.base_spec([]))
    instances = gen_inv.instances()
    try:
        for number, (production, tags, body) in enumerate(gen_inv.expressions(depth)):
            if number % slices != index:
                continue
            result.states += 1
            try:
                with time_limit(120):
                    verdict, detail = accept(body, base)
            except CaseTimeout:
                result.timeouts += 1
                continue
            result.evaluations += 1
            result.outcomes.add(verdict)
            result.extra.setdefault("verdicts", {})
            result.extra["verdicts"][verdict] = result.extra["verdicts"].get(verdict, 0) + 1
            if verdict != "accepted":
                continue
            result.nontrivial += 1
            result.transitions += len(instances)
            breach = judge(env, body, instances)
            if breach is None:
                result.outcomes.add("accepted:total")
                if len(result.samples) < 1 and production.startswith("implication"):
                    result.samples.append({"invariant": body})
                continue
            failure, message, instance = breach
            result.add_violation(
                signature_of(failure, production, tags),
                f"`{body}` is accepted but {message}",
                {"body": body, "instance": sdk.show(instance)},
            )
    finally:
        shutil.rmtree(base, ignore_errors=True)
    return result


def replay(case: Any) -> List[Violation]:
    base = worker_tmp() / "c07-replay"
    try:
        body = case["body"]
        verdict, _ = accept(body, base)
        if verdict != "accepted":
            return []
        env = gen_inv.ref_env(gen_inv.base_spec([]))
        breach = judge(env, body, gen_inv.instances())
        if breach is None:
            return []
        failure, message, instance = breach
        for production, tags, other in gen_inv.expressions(2):
            if other == body:
                return [Violation(signature_of(failure, production, tags), message, case)]
        return [Violation(f"{failure}:?", message, case)]
    finally:
        shutil.rmtree(base, ignore_errors=True)
