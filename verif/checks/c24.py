"""
C24 — the model cache survives crashes and concurrent runs.

The *real* ``run.load_model(path, cache_model=True)`` is executed by N threads under a
cooperative scheduler (one baton).  Scheduling points are the file-system primitives of
the cache branch, intercepted from the harness: ``exists``, ``open('rb')``, the read in
``pickle.load``, ``mkdir``, ``open('wb')``, two write chunks of ``pickle.dump`` (first
written through, second buffered until ``close``), ``close``, ``rename``, ``unlink``.
A *crash* at a point kills the run there: the pending operation and everything after it
(including the ``finally: unlink`` and the flush of buffered data) never happens.

Exploration: stateless depth-first search over schedules (re-execution from scratch for
every schedule) with a deviation bound (preemptions + crashes) and state-hash pruning.
"""
from __future__ import annotations

import hashlib
import os
import pathlib
import pickle as real_pickle
import shutil
import tempfile
import threading
import types
from typing import Any, Dict, List, Optional, Sequence, Set, Tuple

from verif.core import Result, Violation, crash_signature, short_exc, scratch_root

ID = "C24"

# Thread hand-offs are futex-bound: more processes than this only add contention.
MAX_WORKERS = 8

BOUNDS = {
    # drivers: list of (texts per run); preemption bound None = unbounded
    "quick": {
        "drivers": [("A", "A"), ("A", "B")],
        "preemptions": None,
        "crashes": 1,
        "deviations": None,
        "split_depth": 4,
    },
    "thorough": {
        "drivers": [("A", "A"), ("A", "B"), ("A", "A", "A"), ("A", "A", "B")],
        "preemptions": None,
        "crashes": 2,
        "deviations": 3,  # applies to drivers with 3 runs only
        "split_depth": 4,
    },
}

META = {
    "technique": (
        "stateless DFS over all schedules of N real load_model runs under a cooperative "
        "scheduler with crash injection at every file-system step; deviation-bounded, "
        "state-hash pruning; invariants checked in every execution"
    ),
    "rule": (
        "drivers: 2 (thorough also 3) concurrent runs of run.load_model(cache_model="
        "True) on the same model text (forced collision on one cache key) and on two "
        "texts sharing the directory; every interleaving of their file-system steps "
        "(16 scheduling points for two runs) and every crash point (crash = the pending "
        "step and all later steps of that run never happen, buffered data is lost); "
        "after each execution a sequential `later run` is appended; states are hashed "
        "as (per-run program counter/observations, directory listing with content "
        "hashes, deviations used); non-trivial = executions with >= 1 context switch "
        "between runs or a crash"
    ),
    "bounds": {
        "quick": "N=2 runs, preemptions unbounded (every interleaving), <= 1 crash",
        "thorough": "N=2: every interleaving, <= 2 crashes; N=3: <= 3 deviations (preemptions + crashes), <= 2 crashes",
    },
    "assumptions": [
        "file-system primitives are atomic and sequentially consistent (POSIX rename "
        "atomicity); a write chunk is all-or-nothing; data handed to a buffered writer "
        "is lost on a crash before close",
        "parsing and translation are memoised per model text (pure, no file-system "
        "effects), the pickled bytes are computed once per text by the real pickle",
        "threads only switch at the hooked file-system steps (the code between them "
        "touches no shared state)",
    ],
}

TEXTS = {
    "A": '''\
class Something:
    """Represent something."""

    x: int

    def __init__(self, x: int) -> None:
        self.x = x


__version__ = "dummy"
__xml_namespace__ = "https://dummy.com"
''',
    "B": '''\
class Other:
    """Represent something else."""


__version__ = "dummy"
__xml_namespace__ = "https://dummy.com"
''',
}


class _Crash(BaseException):
    """Unwind a run which has been killed."""


class _Abandon(BaseException):
    """Unwind a run because the execution has been abandoned (state already seen)."""


_TLS = threading.local()


class Harness:
    """Own all nondeterminism of ``load_model``: files, uuid, pickle, parse."""

    def __init__(self, base: pathlib.Path) -> None:
        import aas_core_codegen
        from aas_core_codegen import run, parse, intermediate

        self.run = run
        self.base = base
        self.tmp = base / "tmp"
        self.tmp.mkdir(parents=True, exist_ok=True)
        self.cache_dir = self.tmp / f"aas-core-codegen-{aas_core_codegen.__version__}"
        self.model_paths = {}  # type: Dict[str, pathlib.Path]
        for name, text in TEXTS.items():
            path = base / f"model_{name}.py"
            path.write_text(text, encoding="utf-8")
            self.model_paths[name] = path

        self.execution = None  # type: Optional[Execution]

        # ---- memoised pure parts --------------------------------------------------
        self._real_parse = parse
        self._real_intermediate = intermediate
        atok_by_text = {}  # type: Dict[str, Any]
        parsed_by_atok = {}  # type: Dict[int, Any]
        translated_by_parsed = {}  # type: Dict[int, Any]

        def source_to_atok(source: str) -> Any:
            if source not in atok_by_text:
                atok_by_text[source] = parse.source_to_atok(source=source)
            return atok_by_text[source]

        def atok_to_symbol_table(atok: Any) -> Any:
            if id(atok) not in parsed_by_atok:
                parsed_by_atok[id(atok)] = parse.atok_to_symbol_table(atok=atok)
            return parsed_by_atok[id(atok)]

        def translate(parsed_symbol_table: Any, atok: Any) -> Any:
            key = id(parsed_symbol_table)
            if key not in translated_by_parsed:
                translated_by_parsed[key] = intermediate.translate(
                    parsed_symbol_table=parsed_symbol_table, atok=atok
                )
            return translated_by_parsed[key]

        self.parse_shim = types.SimpleNamespace(
            source_to_atok=source_to_atok,
            check_expected_imports=parse.check_expected_imports,
            atok_to_symbol_table=atok_to_symbol_table,
        )
        self.intermediate_shim = types.SimpleNamespace(
            translate=translate, SymbolTable=intermediate.SymbolTable
        )

        # ---- reference results and the expected cache entries ----------------------
        self.reference_dump = {}  # type: Dict[str, str]
        self.expected_bytes = {}  # type: Dict[str, bytes]  # by cache file name
        self.text_of_entry = {}  # type: Dict[str, str]
        self._dump_by_id = {}  # type: Dict[int, str]
        self._loaded_by_bytes = {}  # type: Dict[bytes, Any]

        saved = tempfile.tempdir
        tempfile.tempdir = str(self.tmp)
        try:
            for name, path in self.model_paths.items():
                result, error = run.load_model(path, cache_model=False)
                assert error is None and result is not None, error
                symbol_table, atok = result
                self.reference_dump[name] = intermediate.dump(symbol_table)
                text_hash = hashlib.sha256(TEXTS[name].encode()).hexdigest()
                entry = f"model-{text_hash}.pickle"
                self.text_of_entry[entry] = name
        finally:
            tempfile.tempdir = saved

    # ------------------------------------------------------------------------------
    def dump_of(self, symbol_table: Any) -> str:
        key = id(symbol_table)
        if key not in self._dump_by_id:
            self._dump_by_id[key] = self._real_intermediate.dump(symbol_table)
        return self._dump_by_id[key]

    def install(self) -> None:
        """Patch the seams of ``run.load_model`` (undone by ``uninstall``)."""
        harness = self
        run = self.run
        self._saved = {
            "pickle": run.pickle,
            # A tree which names its temporary file without ``uuid`` has no such seam.
            "uuid": getattr(run, "uuid", None),
            "parse": run.parse,
            "intermediate": run.intermediate,
            "exists": pathlib.Path.exists,
            "open": pathlib.Path.open,
            "mkdir": pathlib.Path.mkdir,
            "rename": pathlib.Path.rename,
            "unlink": pathlib.Path.unlink,
            "tempdir": tempfile.tempdir,
        }
        saved = self._saved
        tempfile.tempdir = str(self.tmp)

        def mine(path: pathlib.Path) -> bool:
            return getattr(_TLS, "tid", None) is not None and str(path).startswith(
                str(harness.cache_dir)
            )

        def point(label: str) -> None:
            execution = harness.execution
            assert execution is not None
            execution.point(label)

        def dead() -> bool:
            execution = harness.execution
            return execution is not None and execution.is_dead(_TLS.tid)

        def exists(self: pathlib.Path, *args: Any, **kwargs: Any) -> bool:
            if not mine(self):
                return saved["exists"](self, *args, **kwargs)  # type: ignore
            point("exists")
            value = saved["exists"](self, *args, **kwargs)
            harness.execution.observe(f"exists={value}")  # type: ignore
            return value  # type: ignore

        def open_(self: pathlib.Path, mode: str = "r", *args: Any, **kwargs: Any) -> Any:
            if not mine(self):
                return saved["open"](self, mode, *args, **kwargs)
            if mode == "rb":
                point("open-rb")
                fid = saved["open"](self, mode, *args, **kwargs)
                fid.verif_name = self.name
                return _Reader(fid, self.name)
            elif mode == "wb":
                point("open-wb")
                return _Writer(harness, self)
            raise AssertionError(f"unexpected mode {mode!r} on {self}")

        def mkdir(self: pathlib.Path, *args: Any, **kwargs: Any) -> None:
            if not mine(self):
                return saved["mkdir"](self, *args, **kwargs)  # type: ignore
            point("mkdir")
            return saved["mkdir"](self, *args, **kwargs)  # type: ignore

        def rename(self: pathlib.Path, target: Any) -> Any:
            if not mine(self):
                return saved["rename"](self, target)
            point("rename")
            return saved["rename"](self, target)

        def unlink(self: pathlib.Path, missing_ok: bool = False) -> None:
            if not mine(self):
                return saved["unlink"](self, missing_ok=missing_ok)  # type: ignore
            if dead():
                return None  # a killed run does not clean up
            point("unlink")
            return saved["unlink"](self, missing_ok=missing_ok)  # type: ignore

        pathlib.Path.exists = exists  # type: ignore
        pathlib.Path.open = open_  # type: ignore
        pathlib.Path.mkdir = mkdir  # type: ignore
        pathlib.Path.rename = rename  # type: ignore
        pathlib.Path.unlink = unlink  # type: ignore

        def dump(obj: Any, fid: Any) -> None:
            assert isinstance(fid, _Writer), "pickle.dump to an unexpected file object"
            data = harness.pickled(obj)
            half = max(1, len(data) // 2)
            point("write-1")
            fid.write_through(data[:half])
            point("write-2")
            fid.write_buffered(data[half:])

        def load(fid: Any) -> Any:
            assert isinstance(fid, _Reader), "pickle.load from an unexpected file object"
            point("read")
            data = fid.fid.read()
            harness.execution.check_read(fid.name, data)  # type: ignore
            if data not in harness._loaded_by_bytes:
                harness._loaded_by_bytes[data] = real_pickle.loads(data)
            return harness._loaded_by_bytes[data]

        run.pickle = types.SimpleNamespace(dump=dump, load=load)  # type: ignore
        if self._saved["uuid"] is not None:
            run.uuid = types.SimpleNamespace(  # type: ignore
                uuid4=lambda: f"run{getattr(_TLS, 'tid', 'x')}"
            )
        run.parse = self.parse_shim  # type: ignore
        run.intermediate = self.intermediate_shim  # type: ignore

    def uninstall(self) -> None:
        saved = self._saved
        run = self.run
        run.pickle = saved["pickle"]
        if saved["uuid"] is not None:
            run.uuid = saved["uuid"]
        run.parse = saved["parse"]
        run.intermediate = saved["intermediate"]
        pathlib.Path.exists = saved["exists"]  # type: ignore
        pathlib.Path.open = saved["open"]  # type: ignore
        pathlib.Path.mkdir = saved["mkdir"]  # type: ignore
        pathlib.Path.rename = saved["rename"]  # type: ignore
        pathlib.Path.unlink = saved["unlink"]  # type: ignore
        tempfile.tempdir = saved["tempdir"]

    def pickled(self, obj: Any) -> bytes:
        """Really pickle the object, once; remember which entry the bytes belong to."""
        key = id(obj.symbol_table)
        if not hasattr(self, "_pickled_by_id"):
            self._pickled_by_id = {}  # type: Dict[int, bytes]
        if key not in self._pickled_by_id:
            data = real_pickle.dumps(obj)
            self._pickled_by_id[key] = data
            dump = self.dump_of(obj.symbol_table)
            for name, reference in self.reference_dump.items():
                if reference == dump:
                    text_hash = hashlib.sha256(TEXTS[name].encode()).hexdigest()
                    self.expected_bytes[f"model-{text_hash}.pickle"] = data
        return self._pickled_by_id[key]

    def listing(self) -> Tuple[Tuple[str, str], ...]:
        if not os.path.isdir(self.cache_dir):
            return (("<no-dir>", ""),)
        result = []
        for name in sorted(os.listdir(self.cache_dir)):
            with open(self.cache_dir / name, "rb") as fid:
                data = fid.read()
            result.append((name, hashlib.md5(data).hexdigest()[:8] + f":{len(data)}"))
        return tuple(result)

    def wipe(self) -> None:
        shutil.rmtree(self.cache_dir, ignore_errors=True)


class _Reader:
    def __init__(self, fid: Any, name: str) -> None:
        self.fid = fid
        self.name = name

    def __enter__(self) -> "_Reader":
        return self

    def __exit__(self, *args: Any) -> None:
        self.fid.close()


class _Writer:
    """A file opened for writing: chunk 1 is written through, chunk 2 waits for close."""

    def __init__(self, harness: Harness, path: pathlib.Path) -> None:
        self.harness = harness
        self.fd = os.open(str(path), os.O_WRONLY | os.O_CREAT | os.O_TRUNC, 0o644)
        self.buffer = b""
        self.closed = False

    def write_through(self, data: bytes) -> None:
        os.write(self.fd, data)

    def write_buffered(self, data: bytes) -> None:
        self.buffer += data

    def __enter__(self) -> "_Writer":
        return self

    def __exit__(self, exc_type: Any, exc: Any, tb: Any) -> None:
        execution = self.harness.execution
        assert execution is not None
        try:
            if not execution.is_dead(_TLS.tid):
                execution.point("close")
                os.write(self.fd, self.buffer)
        finally:
            # On a crash the buffered data is lost; the descriptor is just released.
            os.close(self.fd)
            self.closed = True


class Execution:
    """One run of the driver under one schedule."""

    def __init__(
        self,
        harness: Harness,
        driver: Sequence[str],
        schedule: Sequence[int],
        crash_bound: int,
        preemption_bound: Optional[int],
        deviation_bound: Optional[int],
        visited: Optional[Set[Any]],
        replay_len: int,
        inline: bool = False,
    ) -> None:
        self.inline = inline
        self.harness = harness
        self.driver = driver
        self.n = len(driver)
        self.schedule = list(schedule)
        self.crash_bound = crash_bound
        self.preemption_bound = preemption_bound
        self.deviation_bound = deviation_bound
        self.visited = visited
        self.replay_len = replay_len

        self.sems = [threading.Semaphore(0) for _ in range(self.n)]
        self.main = threading.Semaphore(0)
        self.status = ["ready"] * self.n  # ready | done | crashed | failed
        self.pending = ["start"] * self.n
        self.pcs = [0] * self.n
        self.observations = [""] * self.n
        self.kill = [None] * self.n  # type: List[Optional[type]]
        self.results = [None] * self.n  # type: List[Any]
        self.errors = [None] * self.n  # type: List[Optional[BaseException]]

        self.options_log = []  # type: List[List[Tuple[str, int]]]
        self.choices = []  # type: List[int]
        self.meta = []  # type: List[Any]  # (last, enabled, preemptions, crashes) before
        self.trace = []  # type: List[str]
        self.read_violations = []  # type: List[str]
        self.crashes = 0
        self.preemptions = 0
        self.switches = 0
        self.abandoned = False
        self.transitions = 0
        self.new_states = 0

    # ---- called from run threads ---------------------------------------------------
    def point(self, label: str) -> None:
        tid = _TLS.tid
        if self.inline:
            self.trace.append(f"{tid}:{label}")
            return
        if self.kill[tid] is not None:
            raise self.kill[tid]()  # type: ignore
        self.pending[tid] = label
        self.pcs[tid] += 1
        self.main.release()
        self.sems[tid].acquire()
        if self.kill[tid] is not None:
            raise self.kill[tid]()  # type: ignore

    def observe(self, what: str) -> None:
        self.observations[_TLS.tid] += what + ";"

    def is_dead(self, tid: int) -> bool:
        return self.kill[tid] is not None

    def check_read(self, name: str, data: bytes) -> None:
        expected = self.harness.expected_bytes.get(name)
        tid = getattr(_TLS, "tid", None)
        if expected is None or data != expected:
            kind = "partial" if expected is not None and expected.startswith(data) else "foreign"
            if len(data) == 0:
                kind = "empty"
            self.read_violations.append(
                f"run {tid} read a {kind} cache entry {name} ({len(data)} bytes)"
            )
        self.observe(f"read={len(data)}")

    def _body(self, tid: int) -> None:
        _TLS.tid = tid
        self.sems[tid].acquire()
        try:
            if self.kill[tid] is not None:
                raise self.kill[tid]()  # type: ignore
            path = self.harness.model_paths[self.driver[tid]]
            self.results[tid] = self.harness.run.load_model(path, cache_model=True)
            self.status[tid] = "done"
        except _Crash:
            self.status[tid] = "crashed"
        except _Abandon:
            self.status[tid] = "abandoned"
        except BaseException as exc:  # an ordinary exception of the code under test
            self.errors[tid] = exc
            self.status[tid] = "failed"
        finally:
            _TLS.tid = None
            self.main.release()

    # ---- the scheduler ---------------------------------------------------------------
    def state_key(self) -> Any:
        return (
            tuple(self.status),
            tuple(self.pcs),
            tuple(self.pending),
            tuple(self.observations),
            self.harness.listing(),
            self.crashes,
            self.preemptions if self.preemption_bound is not None or self.deviation_bound is not None else -1,
        )

    def run_inline(self) -> None:
        """Run the single run of the driver in the calling thread (no scheduling)."""
        assert self.inline and self.n == 1
        self.harness.execution = self
        _TLS.tid = 0
        try:
            path = self.harness.model_paths[self.driver[0]]
            self.results[0] = self.harness.run.load_model(path, cache_model=True)
            self.status[0] = "done"
        except Exception as exc:
            self.errors[0] = exc
            self.status[0] = "failed"
        finally:
            _TLS.tid = None
            self.harness.execution = None

    def run(self) -> None:
        self.harness.wipe()
        self.harness.execution = self
        threads = [
            threading.Thread(target=self._body, args=(tid,), daemon=True)
            for tid in range(self.n)
        ]
        for thread in threads:
            thread.start()

        last = None  # type: Optional[int]
        position = 0
        while True:
            enabled = [t for t in range(self.n) if self.status[t] == "ready"]
            if not enabled:
                break
            ordered = ([last] if last in enabled else []) + [
                t for t in enabled if t != last
            ]
            options = [("run", t) for t in ordered]  # type: List[Tuple[str, int]]
            for t in ordered:
                if self.pending[t] != "start":
                    options.append(("crash", t))

            if position >= self.replay_len and self.visited is not None:
                key = self.state_key()
                if key in self.visited:
                    self.abandoned = True
                    break
                self.visited.add(key)
                self.new_states += 1

            choice = self.schedule[position] if position < len(self.schedule) else 0
            if choice >= len(options):
                raise RuntimeError(
                    f"replay diverged: choice {choice} of {options} at {position}"
                )
            self.options_log.append(options)
            self.choices.append(choice)
            self.meta.append((last, tuple(enabled), self.preemptions, self.crashes))
            position += 1

            action, tid = options[choice]
            if action == "run":
                if last is not None and last in enabled and tid != last:
                    self.preemptions += 1
                if last is not None and tid != last:
                    self.switches += 1
                self.trace.append(f"{tid}:{self.pending[tid]}")
            else:
                self.crashes += 1
                self.kill[tid] = _Crash
                self.trace.append(f"{tid}:CRASH-before-{self.pending[tid]}")
            self.transitions += 1
            self.sems[tid].release()
            self.main.acquire()
            if action == "run":
                last = tid

        if self.abandoned:
            for tid in range(self.n):
                if self.status[tid] == "ready":
                    self.kill[tid] = _Abandon
                    self.sems[tid].release()
                    self.main.acquire()
        for thread in threads:
            thread.join(timeout=10)
        self.harness.execution = None

    def alternative_allowed(self, index: int, alt: int) -> bool:
        """Is taking option ``alt`` at decision ``index`` within the bounds?"""
        last, enabled, preemptions, crashes = self.meta[index]
        action, tid = self.options_log[index][alt]
        if action == "crash":
            crashes += 1
        elif last is not None and last in enabled and tid != last:
            # a switch away from a still-enabled last run is a preemption
            preemptions += 1
        if crashes > self.crash_bound:
            return False
        if self.preemption_bound is not None and preemptions > self.preemption_bound:
            return False
        if (
            self.deviation_bound is not None
            and preemptions + crashes > self.deviation_bound
        ):
            return False
        return True


# --------------------------------------------------------------------------------------
# Exploration
# --------------------------------------------------------------------------------------

_HARNESS = None  # type: Optional[Harness]


def harness() -> Harness:
    global _HARNESS
    if _HARNESS is None:
        base = pathlib.Path(tempfile.mkdtemp(prefix="c24-", dir=tempfile.tempdir or scratch_root()))
        _HARNESS = Harness(base)
    return _HARNESS


def bounds_for(tier: str, driver: Sequence[str]) -> Tuple[int, Optional[int], Optional[int]]:
    bound = BOUNDS[tier]
    deviations = bound["deviations"] if len(driver) >= 3 else None
    return bound["crashes"], bound["preemptions"], deviations  # type: ignore


def check_execution(execution: Execution, h: Harness) -> List[Violation]:
    """Invariants I1-I3 and the later run, for one completed execution."""
    case = {
        "driver": list(execution.driver),
        "schedule": list(execution.choices),
        "trace": list(execution.trace),
    }
    violations = []  # type: List[Violation]

    for message in execution.read_violations:
        kind = message.split(" read a ")[1].split(" ")[0]
        violations.append(Violation(f"I1-read-{kind}-entry", message, case))

    for tid in range(execution.n):
        status = execution.status[tid]
        if status == "failed":
            exc = execution.errors[tid]
            assert exc is not None
            violations.append(
                Violation(
                    "I2-run-raised:" + crash_signature(exc),
                    f"run {tid} raised {short_exc(exc)[:160]}",
                    case,
                )
            )
        elif status == "done":
            result, error = execution.results[tid]
            if error is not None or result is None:
                violations.append(
                    Violation("I2-run-error", f"run {tid} returned error {error!r}", case)
                )
            else:
                dump = h.dump_of(result[0])
                if dump != h.reference_dump[execution.driver[tid]]:
                    violations.append(
                        Violation(
                            "I2-result-differs",
                            f"run {tid} returned another model than the uncached run",
                            case,
                        )
                    )
        elif status == "ready":
            violations.append(Violation("deadlock", f"run {tid} never finished", case))

    # I3: what is left in the directory
    if os.path.isdir(h.cache_dir):
        for name in sorted(os.listdir(h.cache_dir)):
            data = (h.cache_dir / name).read_bytes()
            if name.endswith(".pickle"):
                expected = h.expected_bytes.get(name)
                if name not in h.text_of_entry:
                    violations.append(
                        Violation("I3-foreign-entry-name", f"unexpected entry {name}", case)
                    )
                elif expected is None or data != expected:
                    violations.append(
                        Violation(
                            "I3-broken-entry-left",
                            f"entry {name} has {len(data)} bytes which are not the "
                            f"complete pickle of its text",
                            case,
                        )
                    )
            elif name.endswith(".tmp"):
                if execution.crashes == 0:
                    violations.append(
                        Violation(
                            "I3-stray-tmp-without-crash",
                            f"temporary file {name} left although no run crashed",
                            case,
                        )
                    )
            else:
                violations.append(
                    Violation("I3-unexpected-file", f"unexpected file {name}", case)
                )

    # The later run: sequential, in the state the execution left behind
    for text_name in sorted(set(execution.driver)):
        later = Execution(h, [text_name], [], 0, None, None, None, 0, inline=True)
        later.run_inline()
        for message in later.read_violations:
            kind = message.split(" read a ")[1].split(" ")[0]
            violations.append(
                Violation(f"I3-later-run-read-{kind}-entry", message, case)
            )
        if later.status[0] == "failed":
            exc = later.errors[0]
            assert exc is not None
            violations.append(
                Violation(
                    "I3-later-run-raised:" + crash_signature(exc),
                    f"later run raised {short_exc(exc)[:160]}",
                    case,
                )
            )
        elif later.status[0] == "done":
            result, error = later.results[0]
            if error is not None or h.dump_of(result[0]) != h.reference_dump[text_name]:
                violations.append(
                    Violation("I3-later-run-differs", f"later run: {error!r}", case)
                )
    return violations


def _run_keeping_directory(execution: Execution, h: Harness) -> None:
    original_wipe = h.wipe
    h.wipe = lambda: None  # type: ignore
    try:
        execution.run()
    finally:
        h.wipe = original_wipe  # type: ignore


def explore(
    tier: str,
    driver: Sequence[str],
    prefix: Sequence[int],
    expand_from: int,
    expand_to: Optional[int],
    result: Optional[Result],
    collect: Optional[List[List[int]]],
) -> None:
    """
    DFS from ``prefix``; alternatives are expanded at decisions in
    ``[expand_from, expand_to)``.  With ``collect`` the schedules reaching
    ``expand_to`` are gathered instead of checked (used for sharding).
    """
    h = harness()
    crash_bound, preemption_bound, deviation_bound = bounds_for(tier, driver)
    visited = set() if collect is None else None  # type: Optional[Set[Any]]
    stack = [(list(prefix), len(prefix))]
    while stack:
        schedule, replay_len = stack.pop()
        execution = Execution(
            h,
            driver,
            schedule,
            crash_bound,
            preemption_bound,
            deviation_bound,
            visited,
            max(replay_len, expand_from),
        )
        execution.run()
        n_decisions = len(execution.choices)

        if collect is not None:
            assert expand_to is not None
            if n_decisions >= expand_to:
                collect.append(execution.choices[:expand_to])
            else:
                collect.append(list(execution.choices))
        else:
            assert result is not None
            result.evaluations += 1
            result.transitions += execution.transitions
            result.states += execution.new_states
            if not execution.abandoned:
                result.extra["complete_executions"] = (
                    result.extra.get("complete_executions", 0) + 1
                )
                if execution.switches > 0 or execution.crashes > 0:
                    result.nontrivial += 1
                end = "|".join(
                    f"{name}" for name, _ in h.listing()
                ) + "|" + ",".join(execution.status)
                end = end.replace(
                    hashlib.sha256(TEXTS["A"].encode()).hexdigest(), "A"
                ).replace(hashlib.sha256(TEXTS["B"].encode()).hexdigest(), "B")
                result.outcomes.add(end)
                for v in check_execution(execution, h):
                    result.add_violation(v.signature, v.message, v.case)
                if len(result.samples) < 1 and execution.crashes and execution.switches:
                    result.samples.append(
                        {"driver": list(driver), "trace": execution.trace}
                    )
            else:
                result.extra["pruned_executions"] = (
                    result.extra.get("pruned_executions", 0) + 1
                )

        start = max(replay_len, expand_from)
        stop = n_decisions if expand_to is None else min(n_decisions, expand_to)
        if execution.abandoned:
            stop = min(stop, n_decisions - 0)
        for index in range(start, stop):
            for alt in range(1, len(execution.options_log[index])):
                if execution.alternative_allowed(index, alt):
                    stack.append((execution.choices[:index] + [alt], index + 1))


def shards(tier: str) -> List[Any]:
    bound = BOUNDS[tier]
    result = []  # type: List[Any]
    saved = tempfile.tempdir
    h = harness()
    h.install()
    try:
        for driver in bound["drivers"]:  # type: ignore
            prefixes = []  # type: List[List[int]]
            explore(tier, driver, [], 0, bound["split_depth"], None, prefixes)  # type: ignore
            seen = set()
            for prefix in prefixes:
                key = tuple(prefix)
                if key not in seen:
                    seen.add(key)
                    result.append((tier, tuple(driver), key))
    finally:
        h.uninstall()
        global _HARNESS
        shutil.rmtree(h.base, ignore_errors=True)
        _HARNESS = None
        tempfile.tempdir = saved
    return result


def work(shard: Any) -> Result:
    tier, driver, prefix = shard
    split_depth = BOUNDS[tier]["split_depth"]
    result = Result()
    h = harness()
    h.install()
    try:
        explore(tier, driver, list(prefix), split_depth, None, result, None)  # type: ignore
    finally:
        h.uninstall()
    return result


def replay(case: Any) -> List[Violation]:
    h = harness()
    h.install()
    try:
        execution = Execution(
            h, case["driver"], case["schedule"], 99, None, None, None, 0
        )
        execution.run()
        return check_execution(execution, h)
    finally:
        h.uninstall()
