"""C13 — the XSD is valid and never rejects valid data."""
from __future__ import annotations

import copy
import re
import shutil
import xml.etree.ElementTree as ET
from typing import Any, Dict, Iterator, List, Optional, Tuple

from verif import exttools, gen_re, schema_space, sdk
from verif.checks import c11
from verif.core import CaseTimeout, Result, Violation, short_exc, time_limit, worker_tmp

ID = "C13"

META = {
    "technique": (
        "the model / document space of C11 through the real xsd target and the real "
        "Python SDK: the schema must load as XML Schema 1.0 and 1.1 (xmlschema) and in "
        "xmllint, every SDK-written XML document on which all invariants hold as Python "
        "must validate; plus every anchored pattern of the regex grammar up to K nodes as "
        "a constrained primitive: whatever Python fullmatches must be accepted by the XSD"
    ),
    "rule": (
        "(a) models, values and reference verdict as C11, documents = xmlization.to_str "
        "of the instance, restricted to XML-representable text; (b) pattern translation: "
        "for every pattern of the grammar over {a, b, ., [ab], [^a], [a-c], \\x61, \\.} x "
        "{?, *, +, {2}, {1,2}, {2,}} x concatenation / alternation up to K nodes and a "
        "menu of escapes (\\x2a, \\$, \\-, \\t, \\\\, \\u00e9, astral range): every "
        "string of length <= 3 over the pattern's characters + {c} which Python "
        "fullmatches must be valid against the generated XSD; non-trivial = valid "
        "documents validated"
    ),
    "bounds": {
        "quick": "(a) all models; (b) K<=2 plus the escape menu",
        "thorough": "(a) all models; (b) K<=3 plus the escape menu",
    },
    "assumptions": [
        "validity of the schema = it loads in xmlschema.XMLSchema10, XMLSchema11 and "
        "xmllint; a document is judged by XMLSchema10 (XMLSchema11 and xmllint must "
        "agree, a disagreement is reported in the evidence as validator_disagreement and "
        "counts as a violation only if two of three reject)",
        "strings with line breaks are outside the space: the property restricts the "
        "pattern clause to text without line breaks (Python's `$` also matches before a "
        "trailing line feed, XSD's implicit anchoring does not), and the XML round trip "
        "loses carriage returns (C10's finding)",
    ],
}

SLICES = 16
ESCAPE_MENU = [
    "^\\x2a$", "^a\\x2ab$", "^\\$$", "^a\\-b$", "^[a\\-b]+$", "^\\t$", "^a\\\\b$", "^\\u00e9+$",
    "^[\\U00010000-\\U0010FFFF]$", "^\\x41{2}$", "^[\\x41-\\x43]$", "^\\.$", "^\\($", "^[\\^a]$",
    "^\\+$", "^\\?$", "^\\|$", "^\\[a\\]$", "^\\{$", "^a\\}$", "^[.]$", "^[$]$", "^[a^]$",
]


def shards(tier: str) -> List[Any]:
    result = [("models", tier, index, SLICES) for index in range(SLICES)]  # type: List[Any]
    patterns = pattern_space(tier)
    parts = max(1, len(patterns) // 24)
    for index in range(parts):
        result.append(("patterns", tier, index, parts))
    result.append(("history", tier))
    return result


def pattern_space(tier: str) -> List[str]:
    from verif.checks import c08

    return c08.anchored_patterns(2 if tier == "quick" else 3) + ESCAPE_MENU


class BuiltXsd:
    def __init__(self, spec: sdk.Spec, base: Any, with_sdk: bool = True) -> None:
        import xmlschema

        self.error = None  # type: Optional[str]
        self.load_errors = []  # type: List[str]
        self.sdk = None  # type: Optional[sdk.PythonSdk]
        self.schema10 = None  # type: Any
        self.schema11 = None  # type: Any
        text = sdk.render(spec)
        rc, _, stderr, out = sdk.generate(text, "xsd", base / "xsd", "Subject")
        if rc != 0:
            self.error = f"xsd: {stderr.strip()[-200:]}"
            return
        self.xsd_path = out / "schema.xsd"
        try:
            self.schema10 = xmlschema.XMLSchema10(str(self.xsd_path))
        except Exception as exc:
            self.load_errors.append(f"XMLSchema10: {short_exc(exc)[:200]}")
        try:
            self.schema11 = xmlschema.XMLSchema11(str(self.xsd_path))
        except Exception as exc:
            self.load_errors.append(f"XMLSchema11: {short_exc(exc)[:200]}")
        if with_sdk:
            self.sdk, stderr = sdk.python_sdk(text, base / "py", "Subject")
            if self.sdk is None:
                self.error = f"python: {stderr.strip()[-200:]}"

    def xmllint_ok(self, document: str, base: Any) -> Optional[bool]:
        """True/False = xmllint's verdict on the document; None = tool unavailable."""
        tool = exttools.xmllint()
        if tool is None:
            return None
        path = base / "doc.xml"
        path.parent.mkdir(parents=True, exist_ok=True)
        path.write_text(document, encoding="utf-8")
        rc, _, stderr = exttools.run([tool, "--noout", "--schema", str(self.xsd_path), str(path)], timeout=60)
        if "failed to compile" in stderr or "WXS schema" in stderr and "failed" in stderr:
            return None if rc not in (0, 3, 4) else (False if rc != 0 else True)
        return rc == 0

    def xmllint_schema_loads(self, base: Any) -> Optional[bool]:
        tool = exttools.xmllint()
        if tool is None:
            return None
        path = base / "empty.xml"
        path.parent.mkdir(parents=True, exist_ok=True)
        path.write_text("<x/>", encoding="utf-8")
        rc, _, stderr = exttools.run([tool, "--noout", "--schema", str(self.xsd_path), str(path)], timeout=60)
        # rc 5 = error in schema compilation
        return rc != 5 and "failed to compile" not in stderr

    def close(self) -> None:
        if self.sdk is not None:
            self.sdk.close()


def validate(built: BuiltXsd, document: str) -> Tuple[bool, str]:
    """Verdict of XMLSchema10 (the judge) and the first reason."""
    try:
        errors = list(built.schema10.iter_errors(document))
    except Exception as exc:
        return False, f"validator raised {short_exc(exc)[:100]}"
    if errors:
        return False, str(errors[0].reason)[:140]
    return True, ""


def explore_model(info: Dict[str, Any], spec: sdk.Spec, base: Any, mode: str, result: Result) -> None:
    label = c11.model_label(info)
    try:
        built = BuiltXsd(spec, base)
    except Exception:
        result.extra["generator_crashes"] = result.extra.get("generator_crashes", 0) + 1
        return
    try:
        if built.error is not None:
            result.extra["models_rejected"] = result.extra.get("models_rejected", 0) + 1
            result.outcomes.add("model-rejected")
            return
        if mode == "sound":
            if built.load_errors:
                result.add_violation(
                    f"schema-invalid:{info['family']}",
                    f"{label}: {built.load_errors[0]}",
                    {"info": info},
                )
            loads = built.xmllint_schema_loads(base / "lint")
            if loads is None:
                if "xmllint" not in result.skipped_tools:
                    result.skipped_tools.append("xmllint")
            elif not loads:
                result.add_violation(
                    f"schema-invalid-xmllint:{info['family']}", f"{label}: xmllint can not compile the schema", {"info": info}
                )
        if built.schema10 is None or built.sdk is None:
            return
        env = sdk.RefEnv(spec)
        first_valid = None
        checked_with_lint = 0
        for instance in schema_space.instances(spec, info["annotation"]):
            if not sdk.xml_representable(instance) or _has_line_break(instance):
                continue
            false = schema_space.false_invariants(env, spec, instance)
            if false is None:
                continue
            try:
                document = built.sdk.xmlization.to_str(built.sdk.build(spec, instance))
            except Exception:
                result.outcomes.add("sdk-raises")
                continue
            accepted, reason = validate(built, document)
            result.evaluations += 1
            result.transitions += 1
            case = {"info": info, "instance": sdk.show(instance)}
            if not false:
                if first_valid is None and accepted:
                    first_valid = document
                if mode == "sound":
                    result.nontrivial += 1
                    if not accepted:
                        # second and third opinion
                        opinions = [accepted]
                        if built.schema11 is not None:
                            opinions.append(built.schema11.is_valid(document))
                        lint = built.xmllint_ok(document, base / "lint")
                        if lint is not None:
                            opinions.append(lint)
                        if sum(1 for o in opinions if not o) >= 2 or len(opinions) == 1:
                            result.add_violation(
                                f"valid-rejected:{c11.signature_tail(info, instance)}",
                                f"{label}: p={instance['p']!r:.40} satisfies all invariants, but the XSD says: {reason}",
                                case,
                            )
                        else:
                            result.extra["validator_disagreement"] = result.extra.get("validator_disagreement", 0) + 1
                    else:
                        result.outcomes.add("valid-accepted")
                        if checked_with_lint < 2:
                            checked_with_lint += 1
                            lint = built.xmllint_ok(document, base / "lint")
                            if lint is False:
                                result.extra["validator_disagreement"] = result.extra.get("validator_disagreement", 0) + 1
            elif mode == "complete" and len(false) == 1:
                result.nontrivial += 1
                if accepted and must_reject_xsd(info, false[0]):
                    result.add_violation(
                        f"invalid-accepted:{c11.signature_tail(info, instance, with_placement=True)}",
                        f"{label}: p={instance['p']!r:.40} breaks {false[0][:60]}, but the XSD accepts the document",
                        case,
                    )
                else:
                    result.outcomes.add("invalid-rejected" if not accepted else "invalid-accepted-excluded")
        if mode == "complete" and first_valid is not None:
            structural(info, first_valid, built, result)
        if len(result.samples) < 1 and first_valid is not None:
            result.samples.append({"model": label, "document": first_valid[:200]})
    finally:
        built.close()


def _has_line_break(value: Any) -> bool:
    if isinstance(value, str):
        return "\r" in value or "\n" in value
    if isinstance(value, list):
        return any(_has_line_break(v) for v in value)
    if isinstance(value, dict):
        return any(_has_line_break(v) for v in value.values())
    return False


def must_reject_xsd(info: Dict[str, Any], false_body: str) -> bool:
    """
    C14 excludes the tightenings which descendants apply to inherited properties: with
    the `split` placement only the ancestor's own constraint (the first of the menu) must
    be enforced.
    """
    if info["placement"] != "split":
        return True
    first_kind, first_detail = info["constraints"][0]
    first_template = {
        "min": f">= {first_detail}", "max": f"<= {first_detail}", "exact": f"== {first_detail}",
    }.get(first_kind)
    # the invariant text of the ancestor's constraint
    from verif import schema_space as space

    for family, menu in space.LEN_MENUS + space.PATTERN_MENUS:
        if family == info["family"]:
            ancestor_template = menu[0][0].replace("X", "self.p")
            return ancestor_template in false_body
    return False


def structural(info: Dict[str, Any], document: str, built: BuiltXsd, result: Result) -> None:
    """Unknown, misplaced, missing required elements (C14)."""
    ET.register_namespace("", "https://dummy.com")
    root = ET.fromstring(document)
    label = c11.model_label(info)
    mutations = []  # type: List[Tuple[str, str]]
    children = list(root)
    for index, child in enumerate(children):
        local = child.tag.split("}", 1)[-1]
        required = local == "p" and not info["annotation"].startswith("Optional[")
        clone = copy.deepcopy(root)
        clone.remove(list(clone)[index])
        if required:
            mutations.append(("missing-required-element", ET.tostring(clone, encoding="unicode")))
        clone = copy.deepcopy(root)
        list(clone)[index].tag = child.tag + "Unknown"
        mutations.append(("unknown-element", ET.tostring(clone, encoding="unicode")))
        clone = copy.deepcopy(root)
        clone.insert(index, copy.deepcopy(child))
        mutations.append(("duplicated-element", ET.tostring(clone, encoding="unicode")))
        clone = copy.deepcopy(root)
        list(clone)[index].tag = "{https://other.com}" + local
        mutations.append(("element-in-another-namespace", ET.tostring(clone, encoding="unicode")))
    clone = copy.deepcopy(root)
    ET.SubElement(clone, "{https://dummy.com}unknown").text = "1"
    mutations.append(("extra-unknown-element", ET.tostring(clone, encoding="unicode")))
    if any(child.tag.endswith("}p") for child in children):
        # ``other`` is declared after ``p``: in front of it, it is misplaced
        clone = copy.deepcopy(root)
        extra = ET.Element("{https://dummy.com}other")
        extra.text = "1"
        clone.insert(0, extra)
        mutations.append(("misplaced-element", ET.tostring(clone, encoding="unicode")))
    clone = copy.deepcopy(root)
    clone.tag = clone.tag + "Unknown"
    mutations.append(("unknown-root", ET.tostring(clone, encoding="unicode")))
    for kind, mutated in mutations:
        result.evaluations += 1
        result.transitions += 1
        accepted, _ = validate(built, mutated)
        if accepted:
            result.add_violation(
                f"structural-accepted:{kind}",
                f"{label}: {kind} is accepted: {mutated[:140]}",
                {"info": info, "document": mutated, "kind": kind},
            )
        else:
            result.outcomes.add("structural-rejected")


# --------------------------------------------------------------------------------------
# Pattern translation
# --------------------------------------------------------------------------------------


def explore_pattern(pattern: str, base: Any, result: Result) -> None:
    body = f"matches_it(self)"
    verbatim = (
        "@verification\ndef matches_it(text: str) -> bool:\n"
        '    """Check that :paramref:`text` matches."""\n'
        f"    pattern = {pattern!r}\n    return match(pattern, text) is not None\n\n\n"
    )
    spec = sdk.Spec(
        cprims=[sdk.CPrim("Tag", "str", [(body, "The text must match.")])],
        classes=[sdk.Cls("Subject", [("p", "Tag")])],
        verbatim_before=verbatim,
    )
    result.states += 1
    try:
        built = BuiltXsd(spec, base, with_sdk=False)
    except Exception:
        result.extra["generator_crashes"] = result.extra.get("generator_crashes", 0) + 1
        return
    if built.error is not None:
        result.extra["models_rejected"] = result.extra.get("models_rejected", 0) + 1
        return
    case = {"info": {"pattern": pattern}}
    if built.schema10 is None:
        result.add_violation(
            f"schema-invalid:pattern:{escape_class(pattern)}",
            f"pattern {pattern!r}: {built.load_errors[0] if built.load_errors else 'schema does not load'}",
            case,
        )
        return
    try:
        compiled = re.compile(pattern)
    except re.error:
        return
    alphabet = sorted(set(c for c in re.sub(r"\\[xuU][0-9a-fA-F]+", "", pattern) if c.isalnum() or c in ".-*$+?|()[]{}^\\")) + ["c", "\xe9", "\U00010000", "*", "A", "\t"]
    seen_alphabet = []  # type: List[str]
    for ch in alphabet:
        if ch not in seen_alphabet:
            seen_alphabet.append(ch)
    for probe in gen_re.probes(tuple(seen_alphabet[:7]), 3):
        if compiled.fullmatch(probe) is None:
            continue
        if not sdk.is_xml_text(probe) or "\n" in probe or "\r" in probe:
            continue
        result.evaluations += 1
        result.transitions += 1
        result.nontrivial += 1
        root = ET.Element("{https://dummy.com}subject")
        ET.SubElement(root, "{https://dummy.com}p").text = probe
        ET.register_namespace("", "https://dummy.com")
        document = ET.tostring(root, encoding="unicode")
        accepted, reason = validate(built, document)
        if not accepted:
            result.add_violation(
                f"pattern-narrowed:{escape_class(pattern)}",
                f"Python fullmatches {probe!r} with {pattern!r}, but the XSD rejects it: {reason[:100]}",
                {"info": {"pattern": pattern, "probe": probe}},
            )
            break
        result.outcomes.add("pattern-accepted")


def escape_class(pattern: str) -> str:
    """Which escape / construct of the pattern is the likely culprit (signature)."""
    found = []
    for name, regex in (
        ("hex-escape", r"\\x[0-9a-fA-F]{2}"), ("u-escape", r"\\u[0-9a-fA-F]{4}"),
        ("U-escape", r"\\U[0-9a-fA-F]{8}"), ("escaped-dollar", r"\\\$"), ("escaped-dash", r"\\-"),
        ("escaped-backslash", r"\\\\"), ("escaped-meta", r"\\[.()\[\]{}+?|^]"), ("escaped-tab", r"\\t"),
        ("bare-meta-in-set", r"\[[^\]]*[.$^][^\]]*\]"),
    ):
        if re.search(regex, pattern):
            found.append(name)
    return "+".join(found) if found else "plain"


def work(shard: Any) -> Result:
    return work_mode(shard, "sound")


def work_mode(shard: Any, mode: str) -> Result:
    result = Result()
    base = worker_tmp() / f"c13-{mode}"
    kind = shard[0]
    try:
        if kind == "models":
            _, tier, index, slices = shard
            for number, (info, spec) in enumerate(schema_space.models(tier)):
                if number % slices != index:
                    continue
                result.states += 1
                try:
                    with time_limit(900):
                        explore_model(info, spec, base, mode, result)
                except CaseTimeout:
                    result.timeouts += 1
                finally:
                    shutil.rmtree(base, ignore_errors=True)
        elif kind == "history":
            # one process, the same patterns with other bounds one after the other: state
            # which leaks from one generation into the next shows as a wrong bound
            tier = shard[1]
            wanted = ["two-patterns-max1", "two-patterns-max3", "two-patterns", "two-patterns-max1", "two-patterns", "two-patterns-max3"]
            by_family = {
                info["family"]: (info, spec)
                for info, spec in schema_space.models(tier)
                if info["annotation"] == "str" and info["placement"] == "own"
            }
            for family in wanted:
                info, spec = by_family[family]
                result.states += 1
                try:
                    with time_limit(900):
                        explore_model(dict(info, history=wanted), spec, base, mode, result)
                except CaseTimeout:
                    result.timeouts += 1
                finally:
                    shutil.rmtree(base, ignore_errors=True)
        else:
            _, tier, index, parts = shard
            for number, pattern in enumerate(pattern_space(tier)):
                if number % parts != index:
                    continue
                try:
                    with time_limit(300):
                        explore_pattern(pattern, base, result)
                except CaseTimeout:
                    result.timeouts += 1
                finally:
                    shutil.rmtree(base, ignore_errors=True)
    finally:
        shutil.rmtree(base, ignore_errors=True)
    return result


def replay_common(case: Any, mode: str) -> List[Violation]:
    info = case["info"]
    result = Result()
    base = worker_tmp() / f"c13-replay-{mode}"
    try:
        if "pattern" in info:
            explore_pattern(info["pattern"], base, result)
        elif "history" in info:
            result = work_mode(("history", "thorough"), mode)
        else:
            for other, spec in schema_space.models("thorough"):
                if other == info:
                    explore_model(info, spec, base, mode, result)
                    break
    finally:
        shutil.rmtree(base, ignore_errors=True)
    return result.violations


def replay(case: Any) -> List[Violation]:
    return replay_common(case, "sound")
