"""
C26 — yield-flow linearisation preserves behaviour.

Lock-step product exploration: a structured (recursive) interpreter of the flow is the
reference; a resumable state-machine interpreter runs the *real*
``yielding.linear.linearize_to_subroutines`` output with exactly the semantics of the
``switch`` emitted by ``cpp/yielding.py`` (conditional jump or fall through, fall-through
between consecutive subroutines, ``Yield`` stores the next label and returns).  The
explorer branches on both outcomes at every condition evaluation (DFS over the outcome
tree) up to K evaluations per path.
"""
from __future__ import annotations

from typing import Any, Iterator, List, Optional, Sequence, Tuple

from verif.core import Result, Violation, crash_signature, short_exc

ID = "C26"

BOUNDS = {
    "quick": {"size": 5, "depth": 3, "k": 6},
    "thorough": {"size": 6, "depth": 3, "k": 8},
}

META = {
    "technique": (
        "exhaustive enumeration of flows x DFS over condition-outcome trees; lock-step "
        "product of structured interpreter and state-machine interpreter of the real "
        "linearisation"
    ),
    "rule": (
        "every flow with <= N nodes and nesting <= D over {Command, IfTrue, IfFalse "
        "(or_else None / [] / nodes), For (with/without init, possibly empty body), "
        "While (possibly empty body), Yield}; for each flow every condition-outcome "
        "sequence up to K evaluations (branching on demand); a flow is non-trivial when "
        "it contains a condition or a yield; transitions = outcome-tree nodes executed "
        "on both interpreters"
    ),
    "bounds": {
        "quick": "N=5 nodes, nesting D=3, K=6 condition evaluations per path; emitted C++ compiled and run for all flows of N<=3 x all 32 outcome strings of length 5",
        "thorough": "N=6 nodes, nesting D=3, K=8 condition evaluations per path; emitted C++ for all flows of N<=4 x 32 outcome strings",
    },
    "assumptions": [
        "state-machine semantics = the C++ switch emitted by cpp/yielding.py: an If "
        "with one target falls through otherwise; falling off a subroutine continues "
        "with the next one; Yield stores the next subroutine's label",
        "end of flow after the last event is not compared (trailing no-op subroutine "
        "falls into `default: throw` in C++; the property does not speak about it)",
    ],
}

# --------------------------------------------------------------------------------------
# Enumeration of abstract flows
# --------------------------------------------------------------------------------------
# Abstract node: ("C",) ("Y",) ("T", body, or_else) ("F", body, or_else)
#                ("R", has_init, body) ("W", body); or_else is None or a tuple.

_SEQ_CACHE = {}  # type: ignore
_NODE_CACHE = {}  # type: ignore


def gen_seqs(n: int, d: int) -> List[Tuple[Any, ...]]:
    """All sequences of nodes of total size ``n`` with nesting budget ``d``."""
    key = (n, d)
    if key in _SEQ_CACHE:
        return _SEQ_CACHE[key]  # type: ignore
    result = []  # type: List[Tuple[Any, ...]]
    if n == 0:
        result.append(())
    else:
        for k in range(1, n + 1):
            for node in gen_nodes(k, d):
                for rest in gen_seqs(n - k, d):
                    result.append((node,) + rest)
    _SEQ_CACHE[key] = result
    return result


def gen_nodes(k: int, d: int) -> List[Any]:
    """All nodes of size exactly ``k`` with nesting budget ``d``."""
    key = (k, d)
    if key in _NODE_CACHE:
        return _NODE_CACHE[key]  # type: ignore
    result = []  # type: List[Any]
    if k == 1:
        result.append(("C",))
        result.append(("Y",))
    if d > 0:
        inner = k - 1
        # Loops (body may be empty)
        for body in gen_seqs(inner, d - 1):
            result.append(("R", False, body))
            result.append(("R", True, body))
            result.append(("W", body))
        # Ifs (body non-empty)
        for kind in ("T", "F"):
            for b in range(1, inner + 1):
                for body in gen_seqs(b, d - 1):
                    if b == inner:
                        result.append((kind, body, None))
                        result.append((kind, body, ()))
                    else:
                        for or_else in gen_seqs(inner - b, d - 1):
                            result.append((kind, body, or_else))
    _NODE_CACHE[key] = result
    return result


def node_kinds(d: int) -> List[str]:
    return ["C", "Y"] + (["R0", "R1", "W", "T", "F"] if d > 0 else [])


def _kind_of(node: Any) -> str:
    if node[0] == "R":
        return "R1" if node[1] else "R0"
    return node[0]  # type: ignore


def shards(tier: str) -> List[Any]:
    bound = BOUNDS[tier]
    result = []  # type: List[Any]
    for n in range(1, bound["size"] + 1):
        for k in range(1, n + 1):
            for kind in node_kinds(bound["depth"]):
                result.append((tier, n, k, kind))
    # Biggest first for balance
    result.sort(key=lambda s: -(s[1] * 10 + s[2]))
    # the emitted C++ of cpp/yielding.py, compiled and run (binds the interpreter's
    # model of `switch` fall-through and state invalidation to the real generator)
    parts = CPP_PARTS[tier]
    for part in range(parts):
        result.append((tier, "cpp", part, parts))
    return result


def flows_of_shard(shard: Any) -> Iterator[Tuple[Any, ...]]:
    tier, n, k, kind = shard
    d = BOUNDS[tier]["depth"]
    for node in gen_nodes(k, d):
        if _kind_of(node) != kind:
            continue
        for rest in gen_seqs(n - k, d):
            yield (node,) + rest


# --------------------------------------------------------------------------------------
# Concretisation with unique labels
# --------------------------------------------------------------------------------------


class _Counter:
    def __init__(self) -> None:
        self.n = 0

    def next(self, prefix: str) -> str:
        self.n += 1
        return f"{prefix}{self.n}"


def to_flow(seq: Sequence[Any], counter: Optional[_Counter] = None, cpp: bool = False) -> List[Any]:
    """
    Build real ``yielding.flow`` nodes with unique command/condition labels; with
    ``cpp`` the labels are wrapped into C++ statements / expressions of the driver.
    """
    from aas_core_codegen.common import Stripped
    from aas_core_codegen.yielding import flow

    if counter is None:
        counter = _Counter()

    def command(label: str) -> str:
        return f'Log("{label}");' if cpp else label

    def condition(label: str) -> str:
        return f'Cond("{label}")' if cpp else label

    def iteration_of(label: str) -> str:
        return f'Log("{label}")' if cpp else label

    result = []  # type: List[Any]
    for node in seq:
        tag = node[0]
        if tag == "C":
            result.append(flow.Command(Stripped(command(counter.next("c")))))
        elif tag == "Y":
            result.append(flow.Yield())
        elif tag in ("T", "F"):
            cond = condition(counter.next("k"))
            body = to_flow(node[1], counter, cpp)
            or_else = None if node[2] is None else to_flow(node[2], counter, cpp)
            cls = flow.IfTrue if tag == "T" else flow.IfFalse
            result.append(cls(cond, body, or_else))
        elif tag == "R":
            init = command(counter.next("i")) if node[1] else None
            cond = condition(counter.next("k"))
            iteration = command(counter.next("t"))
            body = to_flow(node[2], counter, cpp)
            result.append(flow.For(cond, iteration, body, init=init))
        elif tag == "W":
            cond = condition(counter.next("k"))
            body = to_flow(node[1], counter, cpp)
            result.append(flow.While(cond, body))
        else:
            raise AssertionError(tag)
    return result


# --------------------------------------------------------------------------------------
# Interpreters
# --------------------------------------------------------------------------------------


class _OutOfOutcomes(Exception):
    pass


class _Env:
    def __init__(self, outcomes: Sequence[bool]) -> None:
        self.outcomes = outcomes
        self.used = 0
        self.events = []  # type: List[str]

    def cond(self, code: str) -> bool:
        if self.used >= len(self.outcomes):
            raise _OutOfOutcomes()
        value = self.outcomes[self.used]
        self.used += 1
        self.events.append(f"{code}={'T' if value else 'F'}")
        return value


def run_structured(flow_nodes: Sequence[Any], env: _Env) -> None:
    """Reference: plain recursion over the structured flow."""
    from aas_core_codegen.yielding import flow

    for node in flow_nodes:
        if isinstance(node, flow.Command):
            env.events.append(node.code)
        elif isinstance(node, flow.Yield):
            env.events.append("yield")
        elif isinstance(node, flow.IfTrue):
            if env.cond(node.condition):
                run_structured(node.body, env)
            elif node.or_else is not None:
                run_structured(node.or_else, env)
        elif isinstance(node, flow.IfFalse):
            if not env.cond(node.condition):
                run_structured(node.body, env)
            elif node.or_else is not None:
                run_structured(node.or_else, env)
        elif isinstance(node, flow.For):
            if node.init is not None:
                env.events.append(node.init)
            while env.cond(node.condition):
                run_structured(node.body, env)
                env.events.append(node.iteration)
        elif isinstance(node, flow.While):
            while env.cond(node.condition):
                run_structured(node.body, env)
        else:
            raise AssertionError(node)


class MachineError(Exception):
    pass


def run_machine(subroutines: Sequence[Any], env: _Env, fuel: int = 10000) -> None:
    """Resumable state machine with the semantics of the emitted C++ switch."""
    from aas_core_codegen.yielding import linear

    if len(subroutines) == 0:
        return
    label_to_index = {}
    for index, subroutine in enumerate(subroutines):
        label_to_index[subroutine[0].label] = index

    state = subroutines[0][0].label
    while True:  # one iteration == one dispatch of `switch (state)`
        if state not in label_to_index:
            # default: throw std::logic_error -- end of the flow
            return
        index = label_to_index[state]
        redispatch = False
        # Fall-through over consecutive case blocks
        while index < len(subroutines) and not redispatch:
            subroutine = subroutines[index]
            last_statement = None
            for statement in subroutine:
                fuel -= 1
                if fuel < 0:
                    raise MachineError("machine does not terminate without conditions")
                last_statement = statement
                if isinstance(statement, linear.Command):
                    env.events.append(statement.code)
                elif isinstance(statement, linear.If):
                    if statement.on_true is None and statement.on_false is None:
                        raise MachineError("If without a target")
                    value = env.cond(statement.condition)
                    if value and statement.on_true is not None:
                        state = statement.on_true
                        redispatch = True
                        break
                    if not value and statement.on_false is not None:
                        state = statement.on_false
                        redispatch = True
                        break
                elif isinstance(statement, linear.Jump):
                    state = statement.target
                    redispatch = True
                    break
                elif isinstance(statement, linear.Yield):
                    env.events.append("yield")
                    if index + 1 < len(subroutines):
                        state = subroutines[index + 1][0].label
                    else:
                        state = subroutine[0].label + 1  # invalidated
                    # `return;` then the caller resumes: re-dispatch on the state
                    redispatch = True
                    break
                elif isinstance(statement, linear.Noop):
                    pass
                else:
                    raise MachineError(f"unknown statement {statement!r}")
            if redispatch:
                break
            if index == len(subroutines) - 1:
                # End of the last case block: state invalidated (Command) or
                # fall-through into `default: throw` -- both end the flow.
                return
            index += 1
        if redispatch and state not in label_to_index:
            if state == subroutines[-1][0].label + 1:
                return  # invalidated state after the final yield
            raise MachineError(f"jump to a missing label {state}")


# --------------------------------------------------------------------------------------
# Oracle
# --------------------------------------------------------------------------------------


def structural_violations(subroutines: Sequence[Any], case: Any) -> List[Violation]:
    from aas_core_codegen.yielding import linear

    violations = []  # type: List[Violation]
    labels = []
    for subroutine in subroutines:
        if len(subroutine) == 0:
            violations.append(Violation("empty-subroutine", "empty subroutine", case))
            continue
        labels.append(subroutine[0].label)
        for statement in list(subroutine)[1:]:
            if statement.label is not None:
                violations.append(
                    Violation(
                        "inner-label", "label on a non-first statement", case
                    )
                )
    if labels != list(range(len(labels))):
        violations.append(
            Violation(
                "labels-not-consecutive", f"subroutine labels are {labels}", case
            )
        )
    label_set = set(labels)
    for subroutine in subroutines:
        for statement in subroutine:
            targets = []  # type: List[Optional[int]]
            if isinstance(statement, linear.Jump):
                targets = [statement.target]
            elif isinstance(statement, linear.If):
                targets = [statement.on_true, statement.on_false]
                if statement.on_true is None and statement.on_false is None:
                    violations.append(
                        Violation("if-without-target", "If without target", case)
                    )
            for target in targets:
                if target is not None and target not in label_set:
                    violations.append(
                        Violation(
                            "missing-target",
                            f"target {target} is not a subroutine label {labels}",
                            case,
                        )
                    )
    return violations


def check_flow(seq: Any, k: int) -> Tuple[List[Violation], int, int]:
    """
    Explore all the outcome sequences for one flow.

    Return (violations, outcome-tree nodes executed, complete paths).
    """
    from aas_core_codegen.yielding import linear

    case = {"flow": seq, "k": k}
    flow_nodes = to_flow(seq)
    try:
        subroutines = linear.linearize_to_subroutines(flow_nodes)
    except Exception as exc:
        return (
            [Violation("crash:" + crash_signature(exc), short_exc(exc), case)],
            0,
            0,
        )

    violations = structural_violations(subroutines, case)
    if violations:
        return violations, 0, 0

    executed = 0
    complete = 0
    stack = [()]  # type: List[Tuple[bool, ...]]
    while stack:
        prefix = stack.pop()
        executed += 1
        ref_env = _Env(prefix)
        ref_more = False
        try:
            run_structured(flow_nodes, ref_env)
        except _OutOfOutcomes:
            ref_more = True

        impl_env = _Env(prefix)
        impl_more = False
        impl_error = None  # type: Optional[str]
        try:
            run_machine(subroutines, impl_env)
        except _OutOfOutcomes:
            impl_more = True
        except MachineError as exc:
            impl_error = str(exc)

        if (
            impl_error is not None
            or ref_env.events != impl_env.events
            or ref_more != impl_more
        ):
            violations.append(
                Violation(
                    "trace-divergence",
                    (
                        f"outcomes={''.join('T' if b else 'F' for b in prefix)} "
                        f"structured={ref_env.events}{'...' if ref_more else ''} "
                        f"machine={impl_env.events}{'...' if impl_more else ''}"
                        f"{' error=' + impl_error if impl_error else ''}"
                    ),
                    {"flow": seq, "k": k, "outcomes": list(prefix)},
                )
            )
            break

        if ref_more:
            if len(prefix) < k:
                stack.append(prefix + (True,))
                stack.append(prefix + (False,))
        else:
            complete += 1
    return violations, executed, complete


def _nontrivial(seq: Any) -> bool:
    text = repr(seq)
    return any(tag in text for tag in ("'Y'", "'T'", "'F'", "'R'", "'W'"))


CPP_PARTS = {"quick": 4, "thorough": 16}
CPP_SIZE = {"quick": 3, "thorough": 4}
CPP_K = 5

CPP_PRELUDE = """
#include <cstdio>
#include <csignal>
#include <stdexcept>
#include <string>
#include <unistd.h>
static int g_flow = -1;
static void OnAlarm(int) {
  // a state machine which spins without evaluating a condition never returns
  char buffer[64]; int n = std::snprintf(buffer, sizeof(buffer), "\\nSPIN %d\\n", g_flow);
  fflush(stdout); (void)!write(1, buffer, n); _exit(3);
}
namespace common {
inline std::string Concat(const std::string& a, const std::string& b) { return a + b; }
}
struct OutOfOutcomes {};
static std::string g_trace; static const char* g_outcomes; static size_t g_pos;
static bool Cond(const char* name) {
  if (g_outcomes[g_pos] == 0) throw OutOfOutcomes();
  bool value = g_outcomes[g_pos++] == 'T';
  g_trace += name; g_trace += value ? "=T " : "=F "; return value;
}
static void Log(const char* name) { g_trace += name; g_trace += ' '; }
template <class M> static void Run(int flow, const char* outcomes) {
  g_flow = flow; std::signal(SIGALRM, OnAlarm); alarm(5);
  g_trace.clear(); g_outcomes = outcomes; g_pos = 0; M m; const char* end = "cap";
  try { for (int step = 0; step < 400; ++step) { m.Execute(); } }
  catch (const OutOfOutcomes&) { end = "more"; }
  catch (const std::logic_error&) { end = "end"; }
  std::printf("%s|%s\\n", g_trace.c_str(), end);
}
"""


def explore_cpp(tier: str, part: int, parts: int, result: Result) -> None:
    import itertools
    import subprocess

    from aas_core_codegen.common import Identifier
    from aas_core_codegen.cpp import yielding as cpp_yielding
    from verif import exttools
    from verif.core import worker_tmp

    gxx = exttools.gxx()
    if gxx is None:
        result.skipped_tools.append("g++")
        return
    depth = BOUNDS[tier]["depth"]
    flows = []  # type: List[Any]
    number = 0
    for n in range(1, CPP_SIZE[tier] + 1):
        for seq in gen_seqs(n, depth):
            number += 1
            if number % parts == part:
                flows.append(seq)
    outcomes = ["".join(bits) for bits in itertools.product("TF", repeat=CPP_K)]
    source = [CPP_PRELUDE]
    main = ["int main() {"]
    for index, seq in enumerate(flows):
        try:
            body = cpp_yielding.generate_execute_body(flow=to_flow(seq, cpp=True), state_member=Identifier("state_"))
        except Exception as exc:
            result.add_violation("cpp-generator-crash:" + crash_signature(exc), short_exc(exc), {"flow": seq, "k": CPP_K, "cpp": True})
            body = "throw std::logic_error(\"generator crashed\");"
        source.append(f"struct M{index} {{ int state_ = 0; void Execute() {{\n{body}\n}} }};")
        for outcome in outcomes:
            main.append(f'  Run<M{index}>({index}, "{outcome}");')
    main.append("  return 0;\n}")
    base = worker_tmp() / f"c26-cpp-{part}"
    base.mkdir(parents=True, exist_ok=True)
    try:
        (base / "flows.cpp").write_text("\n".join(source) + "\n" + "\n".join(main) + "\n", encoding="utf-8")
        rc, _, stderr = exttools.run([gxx, "-std=c++17", "-O0", "-w", "-o", str(base / "flows"), str(base / "flows.cpp")], timeout=1800)
        if rc != 0:
            result.add_violation("cpp-does-not-compile", stderr[-300:], {"flow": flows[0] if flows else None, "k": CPP_K, "cpp": True})
            return
        rc, stdout, stderr = exttools.run([str(base / "flows")], timeout=1200)
        lines = stdout.splitlines()
        if rc == 3 and lines and lines[-1].startswith("SPIN "):
            spinning = flows[int(lines[-1].split()[1])]
            result.add_violation(
                "cpp-state-machine-spins",
                "the emitted C++ state machine loops without evaluating any condition",
                {"flow": spinning, "k": CPP_K, "cpp": True},
            )
            return
        if rc != 0 or len(lines) != len(flows) * len(outcomes):
            result.extra.setdefault("harness_errors", []).append(f"cpp driver: rc={rc}, {len(lines)} lines, {stderr[-200:]}")
            return
        position = 0
        for seq in flows:
            reference_flow = to_flow(seq)
            result.states += 1
            result.evaluations += 1
            if _nontrivial(seq):
                result.nontrivial += 1
            for outcome in outcomes:
                env = _Env([c == "T" for c in outcome])
                end = "end"
                try:
                    run_structured(reference_flow, env)
                except _OutOfOutcomes:
                    end = "more"
                expected = "".join(f"{event} " for event in env.events if event != "yield") + "|" + end
                got = lines[position]
                position += 1
                result.transitions += 1
                if got != expected:
                    result.add_violation(
                        "cpp-trace-divergence",
                        f"outcomes={outcome}: emitted C++ gives {got!r}, the structured flow {expected!r}",
                        {"flow": seq, "k": CPP_K, "cpp": True, "outcomes": outcome},
                    )
                    break
            else:
                result.outcomes.add("cpp-agrees")
    finally:
        import shutil

        shutil.rmtree(base, ignore_errors=True)


def work(shard: Any) -> Result:
    tier = shard[0]
    k = BOUNDS[tier]["k"]
    result = Result()
    if shard[1] == "cpp":
        explore_cpp(tier, shard[2], shard[3], result)
        return result
    for seq in flows_of_shard(shard):
        violations, executed, complete = check_flow(seq, k)
        result.evaluations += 1
        result.states += 1
        result.transitions += executed
        if _nontrivial(seq):
            result.nontrivial += 1
        result.outcomes.add(f"paths={min(complete, 20)}")
        result.extra["complete_paths"] = result.extra.get("complete_paths", 0) + complete
        for v in violations:
            result.add_violation(v.signature, v.message, v.case)
        if len(result.samples) < 1 and len(seq) >= 2:
            result.samples.append({"flow": seq, "paths": complete})
    return result


def _tuplify(value: Any) -> Any:
    if isinstance(value, list):
        return tuple(_tuplify(item) for item in value)
    return value


def replay(case: Any) -> List[Violation]:
    if case.get("cpp"):
        result = Result()
        # one flow: reuse the exploration with a private generator of one element
        original = gen_seqs
        try:
            globals()["gen_seqs"] = lambda n, d: [_tuplify(case["flow"])] if n == 1 else []
            explore_cpp("quick", 0, 1, result)
        finally:
            globals()["gen_seqs"] = original
        return result.violations
    return check_flow(_tuplify(case["flow"]), case["k"])[0]
