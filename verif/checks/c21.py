"""C21 — distinct meta-model names never collide in generated code."""
from __future__ import annotations

import ast
import importlib
import itertools
import json
import re
import shutil
import xml.etree.ElementTree as ET
from typing import Any, Dict, Iterator, List, Optional, Sequence, Tuple

from verif import harness, stream
from verif.core import CaseTimeout, Result, Violation, crash_signature, short_exc, time_limit, worker_tmp

ID = "C21"

META = {
    "technique": (
        "exhaustive enumeration of all unordered pairs of spelling variants of one name "
        "(case, underscores, digits, abbreviations) placed in one scope for each entity "
        "kind, through all 8 real targets; oracle 1: if the target's own name conversion "
        "maps both to one generated name, the target must fail with an error; oracle 2 "
        "(independent of the naming functions): the generated Python modules, JSON Schema "
        "and XSD contain no duplicate declaration in a scope"
    ),
    "rule": (
        "variants of `Some_url` / `some_url`: {Some_url, Some_URL, Some_Url, SomeUrl, "
        "SomeURL, Someurl, Some_u_r_l, Some_url_1, Some_url1, Some_Url_1, SOME_URL, "
        "Some_uRL, Some_ur_l, Some_URL_1, Some_u_rl, Some_Url1} and the lower-case "
        "analogues; kinds: two classes, two enumerations, class + enumeration, two "
        "literals of an enumeration, two properties of a class, two constants, two "
        "verification functions, class + constant, property of a parent + property of "
        "its child; a pair is a case when the front end accepts the model; for each "
        "target: rc == 0 => the two generated names (by the target's naming module) "
        "differ, and no scope of the generated Python code / JSON Schema definitions / "
        "XSD components holds a duplicate; non-trivial = accepted pairs x targets which "
        "generated code"
    ),
    "bounds": {
        "quick": "16 variants (120 pairs) per kind, 9 kinds",
        "thorough": "same pairs plus the triples of the 6 most similar variants in one scope",
    },
    "assumptions": [
        "oracle 1 takes the target's naming functions as the definition of `name "
        "conversion`; oracle 2 does not use them but is limited to the artefacts which "
        "can be parsed here (Python ast, JSON, XML)",
        "a crash of a generator is C02's business and is only counted here",
    ],
}

CLASS_VARIANTS = [
    "Some_url", "Some_URL", "Some_Url", "SomeUrl", "SomeURL", "Someurl", "Some_u_r_l",
    "Some_url_1", "Some_url1", "Some_Url_1", "SOME_URL", "Some_uRL", "Some_ur_l",
    "Some_URL_1", "Some_u_rl", "Some_Url1",
]
LOWER_VARIANTS = [
    "some_url", "some_URL", "some_Url", "someUrl", "someURL", "someurl", "some_u_r_l",
    "some_url_1", "some_url1", "some_Url_1", "sOME_URL", "some_uRL", "some_ur_l",
    "some_URL_1", "some_u_rl", "some_Url1",
]

KINDS = [
    "class-class", "enum-enum", "class-enum", "literal-literal", "property-property",
    "constant-constant", "function-function", "class-constant", "parent-child-property",
]

TAIL = '__version__ = "dummy"\n__xml_namespace__ = "https://dummy.com"\n'


def klass(name: str, props: Sequence[str] = ("text",), base: str = "DBC") -> str:
    lines = [f"class {name}({base}):", f'    """Represent {name}."""', ""]
    for prop in props:
        lines += [f"    {prop}: str", ""]
    args = ", ".join(f"{p}: str" for p in props)
    lines.append(f"    def __init__(self, {args}) -> None:")
    for prop in props:
        lines.append(f"        self.{prop} = {prop}")
    return "\n".join(lines) + "\n\n\n"


def enum(name: str, literals: Sequence[str] = ("First", "Second")) -> str:
    lines = [f"class {name}(Enum):", f'    """Represent {name}."""', ""]
    for index, literal in enumerate(literals):
        lines.append(f'    {literal} = "value-{index}"')
    return "\n".join(lines) + "\n\n\n"


def function(name: str) -> str:
    return (
        f"@verification\ndef {name}(text: str) -> bool:\n"
        f'    """Check :paramref:`text`."""\n    return len(text) > 0\n\n\n'
    )


def constant(name: str, value: int) -> str:
    return f"{name}: int = constant_int(value={value})\n\n"


def model(kind: str, first: str, second: str) -> str:
    """``first`` / ``second`` are indices-resolved spellings for the kind."""
    holder = klass("Holder")
    if kind == "class-class":
        return klass(first) + klass(second) + holder + TAIL
    if kind == "enum-enum":
        return enum(first) + enum(second) + holder + TAIL
    if kind == "class-enum":
        return klass(first) + enum(second) + holder + TAIL
    if kind == "literal-literal":
        return enum("Kind", [first, second]) + holder + TAIL
    if kind == "property-property":
        return klass("Holder", [first, second]) + TAIL
    if kind == "constant-constant":
        return constant(first, 1) + constant(second, 2) + holder + TAIL
    if kind == "function-function":
        return function(first) + function(second) + holder + TAIL
    if kind == "class-constant":
        return constant(second, 1) + klass(first) + holder + TAIL
    if kind == "parent-child-property":
        parent = (
            f"@abstract\n@serialization(with_model_type=True)\n" + klass("Parent", [first])
        )
        child_lines = [
            "class Child(Parent):", '    """Represent the child."""', "", f"    {second}: str", "",
            f"    def __init__(self, {first}: str, {second}: str) -> None:",
            f"        Parent.__init__(self, {first})", f"        self.{second} = {second}",
        ]
        return parent + "\n".join(child_lines) + "\n\n\n" + TAIL
    raise ValueError(kind)


def spellings(kind: str, i: int, j: int) -> Tuple[str, str]:
    upper, lower = CLASS_VARIANTS, LOWER_VARIANTS
    if kind in ("class-class", "enum-enum", "class-enum", "literal-literal", "constant-constant"):
        return upper[i], upper[j]
    if kind == "class-constant":
        return upper[i], upper[j]
    return lower[i], lower[j]


# target -> kind -> (naming function for the first, for the second)
def naming_functions(target: str, kind: str) -> Optional[Tuple[Any, Any]]:
    from aas_core_codegen import naming as common_naming
    from aas_core_codegen.common import Identifier

    if target in ("jsonschema", "xsd"):
        if target == "jsonschema":
            table = {
                "class-class": (common_naming.json_model_type, common_naming.json_model_type),
                "property-property": (common_naming.json_property, common_naming.json_property),
                "parent-child-property": (common_naming.json_property, common_naming.json_property),
                "class-enum": (common_naming.json_model_type, common_naming.json_model_type),
                "enum-enum": (common_naming.json_model_type, common_naming.json_model_type),
            }
        else:
            table = {
                "class-class": (common_naming.xml_class_name, common_naming.xml_class_name),
                "property-property": (common_naming.xml_property, common_naming.xml_property),
                "parent-child-property": (common_naming.xml_property, common_naming.xml_property),
            }
        return table.get(kind)
    module = importlib.import_module(f"aas_core_codegen.{target}.naming")

    def pick(*names: str) -> Any:
        for name in names:
            function_ = getattr(module, name, None)
            if function_ is not None:
                return function_
        return None

    class_fn = pick("class_name", "struct_name")
    enum_fn = pick("enum_name")
    table = {
        "class-class": (class_fn, class_fn),
        "enum-enum": (enum_fn, enum_fn),
        "class-enum": (class_fn, enum_fn),
        "literal-literal": (pick("enum_literal_name"),) * 2,
        "property-property": (pick("property_name", "getter_name"),) * 2,
        "parent-child-property": (pick("property_name", "getter_name"),) * 2,
        "constant-constant": (pick("constant_name"),) * 2,
        "function-function": (pick("function_name", "method_name"),) * 2,
        "class-constant": (class_fn, pick("constant_name")),
    }
    pair = table.get(kind)
    if pair is None or pair[0] is None or pair[1] is None:
        return None
    return pair


def converted(target: str, kind: str, first: str, second: str) -> Optional[Tuple[str, str]]:
    from aas_core_codegen.common import Identifier

    functions = naming_functions(target, kind)
    if functions is None:
        return None
    try:
        if target == "golang" and kind == "literal-literal":
            # Go prefixes the literals with the name of the enumeration
            return (
                str(functions[0](Identifier("Kind"), Identifier(first))),
                str(functions[1](Identifier("Kind"), Identifier(second))),
            )
        return str(functions[0](Identifier(first))), str(functions[1](Identifier(second)))
    except TypeError:
        return None
    except Exception:
        return None


# --------------------------------------------------------------------------------------
# Oracle 2: duplicates in the generated artefacts
# --------------------------------------------------------------------------------------


def python_duplicates(out: Any) -> List[str]:
    problems = []  # type: List[str]
    for path in sorted(out.rglob("*.py")):
        if "/dev/tests/" in str(path):
            continue
        try:
            tree = ast.parse(path.read_text(encoding="utf-8"))
        except SyntaxError as exc:
            problems.append(f"{path.name}: syntax error {exc}")
            continue

        def names_of(body: List[ast.stmt]) -> List[str]:
            found = []  # type: List[str]
            for statement in body:
                if isinstance(statement, (ast.ClassDef, ast.FunctionDef)):
                    found.append(statement.name)
                elif isinstance(statement, ast.AnnAssign) and isinstance(statement.target, ast.Name):
                    found.append(statement.target.id)
                elif isinstance(statement, ast.Assign):
                    for target in statement.targets:
                        if isinstance(target, ast.Name):
                            found.append(target.id)
            return found

        scopes = [("module", tree.body)] + [
            (node.name, node.body) for node in ast.walk(tree) if isinstance(node, ast.ClassDef)
        ]
        for scope_name, body in scopes:
            names = names_of(body)
            duplicates = sorted({n for n in names if names.count(n) > 1 and not n.startswith("_")})
            # overloads and re-definitions under `if` are not used by the generator
            if duplicates:
                problems.append(f"{path.name}:{scope_name}: {duplicates[:3]}")
    return problems


def jsonschema_duplicates(out: Any, expected_definitions: int) -> List[str]:
    problems = []  # type: List[str]
    text = (out / "schema.json").read_text(encoding="utf-8")
    keys = []  # type: List[str]

    def hook(pairs: List[Tuple[str, Any]]) -> Dict[str, Any]:
        names = [k for k, _ in pairs]
        duplicates = sorted({k for k in names if names.count(k) > 1})
        if duplicates:
            problems.append(f"duplicate keys {duplicates[:3]}")
        return dict(pairs)

    json.loads(text, object_pairs_hook=hook)
    return problems


def xsd_duplicates(out: Any) -> List[str]:
    problems = []  # type: List[str]
    root = ET.parse(out / "schema.xsd").getroot()
    by_kind = {}  # type: Dict[str, List[str]]
    for child in root:
        name = child.get("name")
        if name is not None:
            by_kind.setdefault(child.tag, []).append(name)
    for tag, names in by_kind.items():
        duplicates = sorted({n for n in names if names.count(n) > 1})
        if duplicates:
            problems.append(f"{tag.split('}')[-1]}: {duplicates[:3]}")
    # elements within one sequence
    for sequence in root.iter("{http://www.w3.org/2001/XMLSchema}sequence"):
        names = [e.get("name") for e in sequence if e.get("name") is not None]
        duplicates = sorted({n for n in names if names.count(n) > 1})
        if duplicates:
            problems.append(f"sequence: {duplicates[:3]}")
    return problems


# --------------------------------------------------------------------------------------
# Work
# --------------------------------------------------------------------------------------

SLICES = 8


def shards(tier: str) -> List[Any]:
    return [(tier, kind, index, SLICES) for kind in KINDS for index in range(SLICES)]


def check_pair(kind: str, first: str, second: str, result: Result) -> None:
    base = worker_tmp() / "c21"
    case = {"kind": kind, "first": first, "second": second}
    text = model(kind, first, second)
    try:
        model_path = stream.write_model(base, text)
        observation = stream.load(model_path)
        result.states += 1
        if observation.stage != "accepted":
            result.outcomes.add(f"front-end:{observation.stage}")
            return
        assert observation.result is not None
        symbol_table, atok = observation.result
        for target in harness.TARGETS:
            snippets = harness.synth_snippets(target, base / f"sn-{target}", "Holder")
            out = base / f"out-{target}"
            result.evaluations += 1
            result.transitions += 1
            try:
                rc, _, stderr = harness.execute_target(symbol_table, atok, model_path, target, snippets, out)
            except Exception as exc:
                result.extra["generator_crashes"] = result.extra.get("generator_crashes", 0) + 1
                result.outcomes.add("crash")
                continue
            names = converted(target, kind, first, second)
            if rc != 0:
                result.outcomes.add("target-error")
                continue
            result.nontrivial += 1
            if names is not None and names[0] == names[1]:
                result.add_violation(
                    f"collision-not-reported:{target}:{kind}",
                    f"{target}: `{first}` and `{second}` ({kind}) both become `{names[0]}`, but code is generated",
                    dict(case, target=target),
                )
                continue
            problems = []  # type: List[str]
            try:
                if target == "python":
                    problems = python_duplicates(out)
                elif target == "jsonschema":
                    problems = jsonschema_duplicates(out, 0)
                elif target == "xsd":
                    problems = xsd_duplicates(out)
            except Exception as exc:
                problems = [f"artefact not parsable: {short_exc(exc)[:100]}"]
            if problems:
                result.add_violation(
                    f"duplicate-declaration:{target}:{kind}",
                    f"{target}: `{first}` / `{second}` ({kind}): {problems[0]}",
                    dict(case, target=target),
                )
            else:
                result.outcomes.add("distinct")
            shutil.rmtree(out, ignore_errors=True)
    finally:
        shutil.rmtree(base, ignore_errors=True)


def work(shard: Any) -> Result:
    tier, kind, index, slices = shard
    result = Result()
    n = len(CLASS_VARIANTS)
    pairs = list(itertools.combinations(range(n), 2))
    if kind in ("class-enum", "class-constant", "parent-child-property"):
        pairs = [(i, j) for i in range(n) for j in range(n)]  # ordered: roles differ
    for number, (i, j) in enumerate(pairs):
        if number % slices != index:
            continue
        first, second = spellings(kind, i, j)
        if first == second and kind not in ("class-constant",):
            continue
        try:
            with time_limit(120):
                check_pair(kind, first, second, result)
        except CaseTimeout:
            result.timeouts += 1
        if len(result.samples) < 1:
            result.samples.append({"kind": kind, "first": first, "second": second})
    return result


def replay(case: Any) -> List[Violation]:
    result = Result()
    check_pair(case["kind"], case["first"], case["second"], result)
    return [v for v in result.violations if v.case.get("target") == case.get("target")]
