"""
C15 — schema constraint inference equals the conjunction of the recognised invariants.

Small meta-models carrying every combination of length / pattern / membership invariants
(within a class, across a parent/child pair and across a constrained-primitive chain) are
generated; the reference is the *evaluation of the very invariant lambdas* on every value
of a finite domain; the oracle compares the admitted sets.
"""
from __future__ import annotations

import itertools
import re
import types
from typing import Any, Dict, Iterator, List, Optional, Sequence, Set, Tuple

from verif.core import Result, Violation, crash_signature, short_exc

ID = "C15"

OPS = ["<", "<=", "==", ">", ">=", "!="]
CONSTS = [0, 1, 2, 3]
LEN_DOMAIN = list(range(0, 8))

META = {
    "technique": (
        "exhaustive enumeration of invariant combinations; real "
        "infer_constraints_by_class vs evaluation of the invariant lambdas over a finite "
        "value domain"
    ),
    "rule": (
        "length: every unordered pair (and single) of comparisons len(x) OP c / c OP "
        "len(x), OP in {<,<=,==,>,>=,!=}, c in {0..3}, under guard modes {none, "
        "`self.p is None or`, `not (self.p is not None) or`, mixed spellings, guard on "
        "another property} in one class; every parent x child pair; every constrained "
        "primitive parent x child pair (thorough: + property typed by it with a class "
        "invariant); property kinds str / bytearray / List[int]; patterns: 1-2 of 3 "
        "pattern functions bare / conjunction / guarded / other-guard, parent+child; "
        "membership: 1-2 of 4 constant sets (str) and 3 enumeration-literal sets incl. "
        "disjoint ones; unrecognised forms which must leave no trace; non-trivial = the "
        "model carries >= 1 recognised invariant; distinct by construction"
    ),
    "bounds": {
        "quick": "pairs of length invariants in one class (4 guard modes), parent x child without guards, primitive chain parent x child; str only for pairs, all three kinds for singles",
        "thorough": "quick + triples of unguarded length invariants over OP x {1,2} constants, parent x child with guards, all property kinds for pairs",
    },
    "assumptions": [
        "recognised forms are taken from the documentation (DESIGN.md C15), not from "
        "the code; `!=` and the unrecognised menu must be ignored",
        "an error reported for a satisfiable set is not flagged (the property only "
        "demands errors for unsatisfiable sets)",
        "value domain: lengths 0..7; strings over {a,b,c} up to length 3; set literals",
    ],
}

# --------------------------------------------------------------------------------------
# Model rendering
# --------------------------------------------------------------------------------------

KIND_TYPES = {"str": "str", "bytearray": "bytearray", "list": "List[int]"}

PATTERNS = {"f_one": "^a*$", "f_two": "^[ab]+$", "f_three": "^.{2}$"}
STR_SETS = {
    "Set_ab": ["a", "b"],
    "Set_bc": ["b", "c"],
    "Set_d": ["d"],
    "Set_abc": ["a", "b", "c"],
}
ENUM_LITERALS = ["A", "B", "C"]
ENUM_SETS = {"Eset_ab": ["A", "B"], "Eset_bc": ["B", "C"], "Eset_c": ["C"]}


def comparison(target: str, op: str, const: int, reverse: bool) -> str:
    if reverse:
        return f"{const} {op} len({target})"
    return f"len({target}) {op} {const}"


def guard(mode: str, prop: str, body: str) -> str:
    if mode == "none":
        return body
    if mode == "or":
        return f"self.{prop} is None or {body}"
    if mode == "impl":
        return f"not (self.{prop} is not None) or {body}"
    raise AssertionError(mode)


def render_model(spec: Any) -> str:
    """
    spec: dict(kind, parent_invs=[expr], child_invs=[expr] or None, use_patterns,
               use_sets, prim=None|dict(parent_invs, child_invs))
    Property layout of class Parent: r (required), p, q (optional), all of ``kind``;
    e, o (enum, optional enum).
    """
    kind = KIND_TYPES[spec.get("kind", "str")]
    lines = []  # type: List[str]
    counter = itertools.count()
    if spec.get("use_patterns"):
        for name, pattern in PATTERNS.items():
            lines += [
                "@verification",
                f"def {name}(text: str) -> bool:",
                f'    """Check {name}."""',
                f'    return match(r"{pattern}", text) is not None',
                "",
                "",
            ]
    lines += [
        "class Letter(Enum):",
        '    """Represent a letter."""',
        "",
    ] + [f'    {lit} = "{lit.lower()}"' for lit in ENUM_LITERALS] + ["", ""]
    if spec.get("use_sets"):
        for name, literals in STR_SETS.items():
            items = ", ".join(f'"{lit}"' for lit in literals)
            lines += [
                f"{name}: Set[str] = constant_set(",
                f"    values=[{items}],",
                f'    description="The set {name}.",',
                ")",
                "",
            ]
        for name, literals in ENUM_SETS.items():
            items = ", ".join(f"Letter.{lit}" for lit in literals)
            lines += [
                f"{name}: Set[Letter] = constant_set(",
                f"    values=[{items}],",
                f'    description="The set {name}.",',
                ")",
                "",
            ]
        lines.append("")
    prim = spec.get("prim")
    if prim is not None:
        for name, parent, invs in (
            ("Prim_parent", "str", prim["parent_invs"]),
            ("Prim_child", "Prim_parent", prim["child_invs"]),
        ):
            for inv in invs:
                lines.append(f'@invariant(lambda self: {inv}, "Invariant {next(counter)}.")')
            lines += [f"class {name}({parent}, DBC):", f'    """Represent {name}."""', "", ""]
        r_type = "Prim_child"
    else:
        r_type = kind

    for inv in spec["parent_invs"]:
        lines.append(f'@invariant(lambda self: {inv}, "Invariant {next(counter)}.")')
    if spec.get("child_invs") is not None:
        # a concrete class with descendants needs the model type in JSON (else the
        # jsonschema generator asserts: a known finding of C02)
        lines.append("@serialization(with_model_type=True)")
    lines += [
        "class Parent(DBC):",
        '    """Represent the parent."""',
        "",
        f"    r: {r_type}",
        f"    p: Optional[{kind}]",
        f"    q: Optional[{kind}]",
        "    e: Letter",
        "    o: Optional[Letter]",
        "",
        "    def __init__(",
        "        self,",
        f"        r: {r_type},",
        "        e: Letter,",
        f"        p: Optional[{kind}] = None,",
        f"        q: Optional[{kind}] = None,",
        "        o: Optional[Letter] = None,",
        "    ) -> None:",
        "        self.r = r",
        "        self.p = p",
        "        self.q = q",
        "        self.e = e",
        "        self.o = o",
        "",
        "",
    ]
    if spec.get("child_invs") is not None:
        for inv in spec["child_invs"]:
            lines.append(f'@invariant(lambda self: {inv}, "Invariant {next(counter)}.")')
        lines += [
            "class Child(Parent):",
            '    """Represent the child."""',
            "",
            "    def __init__(",
            "        self,",
            f"        r: {r_type},",
            "        e: Letter,",
            f"        p: Optional[{kind}] = None,",
            f"        q: Optional[{kind}] = None,",
            "        o: Optional[Letter] = None,",
            "    ) -> None:",
            "        Parent.__init__(self, r, e, p, q, o)",
            "",
            "",
        ]
    lines += ['__version__ = "dummy"', '__xml_namespace__ = "https://dummy.com"']
    return "\n".join(lines) + "\n"


# --------------------------------------------------------------------------------------
# Reference: evaluate the lambdas
# --------------------------------------------------------------------------------------

_ENV = {}  # type: Dict[str, Any]


def env() -> Dict[str, Any]:
    if not _ENV:
        import enum

        letter = enum.Enum("Letter", {lit: lit.lower() for lit in ENUM_LITERALS})
        _ENV["Letter"] = letter
        for name, pattern in PATTERNS.items():
            _ENV[name] = (lambda pat: (lambda text: re.match(pat, text) is not None))(pattern)
        for name, literals in STR_SETS.items():
            _ENV[name] = set(literals)
        for name, literals in ENUM_SETS.items():
            _ENV[name] = {letter[lit] for lit in literals}
    return _ENV


def holds(expr: str, instance: Any) -> bool:
    scope = dict(env())
    scope["self"] = instance
    return bool(eval(expr, scope))  # the meta-model's own lambda body


def make_value(kind: str, length: int) -> Any:
    if kind == "str":
        return "x" * length
    if kind == "bytearray":
        return bytearray(b"x" * length)
    return [1] * length


# --------------------------------------------------------------------------------------
# Case descriptions
# --------------------------------------------------------------------------------------
# A case = dict(family, spec, checks=[check]) where check =
#   dict(cls, prop, recognised=[expr...], domain="len"|"str"|"strset"|"enum",
#        misread=[expr...] (forms which must be ignored))


def length_atoms(consts: Sequence[int] = CONSTS) -> List[Tuple[str, int, bool]]:
    return [(op, c, rev) for op in OPS for c in consts for rev in (False, True)]


def is_recognised_length(op: str) -> bool:
    return op != "!="


def cases_len_pairs(kind: str) -> Iterator[Any]:
    atoms = length_atoms()
    combos = [(a,) for a in atoms] + list(itertools.combinations_with_replacement(atoms, 2))
    for combo in combos:
        for mode in ("none", "or", "impl", "mixed", "other"):
            if mode == "mixed" and len(combo) < 2:
                continue
            invs = []
            recognised = []
            ignored = []
            if mode == "none":
                prop = "r"
                for op, c, rev in combo:
                    expr = comparison("self.r", op, c, rev)
                    invs.append(expr)
                    (recognised if is_recognised_length(op) else ignored).append(expr)
            elif mode in ("or", "impl", "mixed"):
                prop = "p"
                for index, (op, c, rev) in enumerate(combo):
                    spelled = mode if mode != "mixed" else ("or", "impl")[index % 2]
                    body = comparison("self.p", op, c, rev)
                    invs.append(guard(spelled, "p", body))
                    (recognised if is_recognised_length(op) else ignored).append(body)
            else:
                # guard on *another* property: not a recognised form -> no trace
                prop = "r"
                for op, c, rev in combo:
                    body = comparison("self.r", op, c, rev)
                    invs.append(guard("or", "q", body))
                    ignored.append(body)
            yield {
                "family": f"len-{mode}",
                "spec": {"kind": kind, "parent_invs": invs, "child_invs": None},
                "checks": [
                    {"cls": "Parent", "prop": prop, "domain": "len", "recognised": recognised}
                ],
            }


def cases_len_triples() -> Iterator[Any]:
    atoms = [a for a in length_atoms([1, 2]) if a[0] != "!="]
    for combo in itertools.combinations(atoms, 3):
        invs = [comparison("self.r", op, c, rev) for op, c, rev in combo]
        yield {
            "family": "len-triple",
            "spec": {"kind": "str", "parent_invs": invs, "child_invs": None},
            "checks": [{"cls": "Parent", "prop": "r", "domain": "len", "recognised": invs}],
        }


def cases_len_parent_child(kind: str, guarded: bool) -> Iterator[Any]:
    atoms = [a for a in length_atoms() if a[0] != "!="]
    for parent_atom in atoms:
        for child_atom in atoms:
            if guarded:
                prop = "p"
                parent_body = comparison("self.p", *parent_atom)
                child_body = comparison("self.p", *child_atom)
                parent_inv = guard("or", "p", parent_body)
                child_inv = guard("impl", "p", child_body)
            else:
                prop = "r"
                parent_body = parent_inv = comparison("self.r", *parent_atom)
                child_body = child_inv = comparison("self.r", *child_atom)
            yield {
                "family": "len-parent-child" + ("-guarded" if guarded else ""),
                "spec": {"kind": kind, "parent_invs": [parent_inv], "child_invs": [child_inv]},
                "checks": [
                    {"cls": "Parent", "prop": prop, "domain": "len", "recognised": [parent_body]},
                    {
                        "cls": "Child",
                        "prop": prop,
                        "domain": "len",
                        "recognised": [parent_body, child_body],
                    },
                ],
            }


def cases_len_primitives(with_class_invariant: bool) -> Iterator[Any]:
    atoms = [a for a in length_atoms() if a[0] != "!="]
    class_invs = [None]  # type: List[Optional[Tuple[str, int, bool]]]
    if with_class_invariant:
        class_invs = [("<=", 3, False), (">=", 1, False), ("==", 2, True)]
    for parent_atom in atoms:
        for child_atom in atoms:
            for class_atom in class_invs:
                parent_expr = comparison("self", *parent_atom)
                child_expr = comparison("self", *child_atom)
                recognised = [
                    comparison("self.r", *parent_atom),
                    comparison("self.r", *child_atom),
                ]
                parent_invs = []
                if class_atom is not None:
                    parent_invs.append(comparison("self.r", *class_atom))
                    recognised.append(parent_invs[0])
                yield {
                    "family": "len-primitive-chain" + ("-class" if class_atom else ""),
                    "spec": {
                        "kind": "str",
                        "parent_invs": parent_invs,
                        "child_invs": None,
                        "prim": {"parent_invs": [parent_expr], "child_invs": [child_expr]},
                    },
                    "checks": [
                        {"cls": "Parent", "prop": "r", "domain": "len", "recognised": recognised}
                    ],
                }


def cases_unrecognised() -> Iterator[Any]:
    menu = [
        "len(self.r) + 1 > 2",
        "not (len(self.r) < 2)",
        "len(self.r) > 1 or len(self.r) < 1",
        "len(self.r) != 2",
        "len(self.r) > 1 and len(self.r) < 3",
        "(len(self.r) > 1) == (len(self.r) > 2)",
        "len(self.r) - 1 >= 0",
        "len(self.r) < 3 or self.p is None",
    ]
    for expr in menu:
        for extra in (None, "len(self.r) <= 3"):
            invs = [expr] + ([extra] if extra else [])
            yield {
                "family": "unrecognised",
                "spec": {"kind": "str", "parent_invs": invs, "child_invs": None},
                "checks": [
                    {
                        "cls": "Parent",
                        "prop": "r",
                        "domain": "len",
                        "recognised": [extra] if extra else [],
                    }
                ],
            }
    yield {
        "family": "unrecognised",
        "spec": {
            "kind": "str",
            "parent_invs": ["self.p is None or self.q is None or len(self.p) < len(self.q)"],
            "child_invs": None,
        },
        "checks": [{"cls": "Parent", "prop": "p", "domain": "len", "recognised": []}],
    }


def cases_patterns() -> Iterator[Any]:
    names = list(PATTERNS)
    singles = [(n,) for n in names]
    pairs = list(itertools.combinations(names, 2))
    for combo in singles + pairs:
        calls_r = [f"{n}(self.r)" for n in combo]
        calls_p = [f"{n}(self.p)" for n in combo]
        variants = [
            ("separate", calls_r, "r", calls_r),
            ("conjunction", [" and ".join(calls_r)], "r", calls_r),
            ("guarded-or", [guard("or", "p", c) for c in calls_p], "p", calls_p),
            ("guarded-impl", [guard("impl", "p", c) for c in calls_p], "p", calls_p),
            (
                "guarded-conjunction",
                [guard("or", "p", "(" + " and ".join(calls_p) + ")")],
                "p",
                calls_p,
            ),
            ("other-guard", [guard("or", "q", c) for c in calls_r], "r", []),
            ("negated", [f"not {c}" for c in calls_r], "r", []),
            ("disjunction", [" or ".join(calls_r)] if len(calls_r) > 1 else [f"{calls_r[0]} or len(self.r) > 5"], "r", []),
        ]
        for label, invs, prop, recognised in variants:
            yield {
                "family": f"pattern-{label}",
                "spec": {"kind": "str", "parent_invs": invs, "child_invs": None, "use_patterns": True},
                "checks": [{"cls": "Parent", "prop": prop, "domain": "str", "recognised": recognised}],
            }
    for parent_name in names:
        for child_name in names:
            parent_inv = f"{parent_name}(self.r)"
            child_inv = f"{child_name}(self.r)"
            yield {
                "family": "pattern-parent-child",
                "spec": {
                    "kind": "str",
                    "parent_invs": [parent_inv],
                    "child_invs": [child_inv],
                    "use_patterns": True,
                },
                "checks": [
                    {"cls": "Parent", "prop": "r", "domain": "str", "recognised": [parent_inv]},
                    {"cls": "Child", "prop": "r", "domain": "str", "recognised": [parent_inv, child_inv]},
                ],
            }


def cases_sets() -> Iterator[Any]:
    for sets, prop_required, prop_optional, domain in (
        (list(STR_SETS), "r", "p", "strset"),
        (list(ENUM_SETS), "e", "o", "enum"),
    ):
        combos = [(s,) for s in sets] + list(itertools.combinations(sets, 2))
        for combo in combos:
            bare = [f"self.{prop_required} in {s}" for s in combo]
            bodies = [f"self.{prop_optional} in {s}" for s in combo]
            yield {
                "family": f"{domain}-bare",
                "spec": {"kind": "str", "parent_invs": bare, "child_invs": None, "use_sets": True},
                "checks": [{"cls": "Parent", "prop": prop_required, "domain": domain, "recognised": bare}],
            }
            yield {
                "family": f"{domain}-guarded",
                "spec": {
                    "kind": "str",
                    "parent_invs": [guard("or", prop_optional, b) for b in bodies],
                    "child_invs": None,
                    "use_sets": True,
                },
                "checks": [{"cls": "Parent", "prop": prop_optional, "domain": domain, "recognised": bodies}],
            }
            if len(combo) == 2:
                yield {
                    "family": f"{domain}-parent-child",
                    "spec": {
                        "kind": "str",
                        "parent_invs": [bare[0]],
                        "child_invs": [bare[1]],
                        "use_sets": True,
                    },
                    "checks": [
                        {"cls": "Parent", "prop": prop_required, "domain": domain, "recognised": [bare[0]]},
                        {"cls": "Child", "prop": prop_required, "domain": domain, "recognised": bare},
                    ],
                }
            yield {
                "family": f"{domain}-other-guard",
                "spec": {
                    "kind": "str",
                    "parent_invs": [guard("or", "q", b) for b in bare],
                    "child_invs": None,
                    "use_sets": True,
                },
                "checks": [{"cls": "Parent", "prop": prop_required, "domain": domain, "recognised": []}],
            }


FAMILIES = {
    "quick": [
        ("len-pairs", "str"),
        ("len-singles-kinds", None),
        ("len-parent-child", "str"),
        ("len-primitives", False),
        ("unrecognised", None),
        ("patterns", None),
        ("sets", None),
    ],
    "thorough": [
        ("len-pairs", "str"),
        ("len-pairs", "bytearray"),
        ("len-pairs", "list"),
        ("len-triples", None),
        ("len-parent-child", "str"),
        ("len-parent-child", "list"),
        ("len-parent-child-guarded", "str"),
        ("len-primitives", False),
        ("len-primitives", True),
        ("unrecognised", None),
        ("patterns", None),
        ("sets", None),
    ],
}

N_SLICES = 24


def cases_of_family(family: str, arg: Any) -> Iterator[Any]:
    if family == "len-pairs":
        yield from cases_len_pairs(arg)
    elif family == "len-singles-kinds":
        for kind in ("bytearray", "list"):
            for case in cases_len_pairs(kind):
                if len(case["spec"]["parent_invs"]) == 1:
                    yield case
    elif family == "len-triples":
        yield from cases_len_triples()
    elif family == "len-parent-child":
        yield from cases_len_parent_child(arg, guarded=False)
    elif family == "len-parent-child-guarded":
        yield from cases_len_parent_child(arg, guarded=True)
    elif family == "len-primitives":
        yield from cases_len_primitives(arg)
    elif family == "unrecognised":
        yield from cases_unrecognised()
    elif family == "patterns":
        yield from cases_patterns()
    elif family == "sets":
        yield from cases_sets()
    else:
        raise AssertionError(family)


def shards(tier: str) -> List[Any]:
    result = []  # type: List[Any]
    for family, arg in FAMILIES[tier]:
        slices = N_SLICES if family.startswith("len-") else 4
        for index in range(slices):
            result.append((family, arg, index, slices))
    return result


# --------------------------------------------------------------------------------------
# Oracle
# --------------------------------------------------------------------------------------

STR_DOMAIN = [""] + ["".join(t) for n in (1, 2, 3) for t in itertools.product("abc", repeat=n)]


def _instance(**kwargs: Any) -> Any:
    letter = env()["Letter"]
    base = {"r": "", "p": None, "q": None, "e": letter["A"], "o": None}
    base.update(kwargs)
    return types.SimpleNamespace(**base)


def reference_admitted(check: Any, kind: str) -> Tuple[List[Any], List[Any]]:
    """Return (domain values, admitted values) by evaluating the recognised lambdas."""
    prop = check["prop"]
    domain = check["domain"]
    letter = env()["Letter"]
    if domain == "len":
        values = [make_value(kind, n) for n in LEN_DOMAIN]
    elif domain == "str":
        values = list(STR_DOMAIN)
    elif domain == "strset":
        values = ["a", "b", "c", "d", "e"]
    else:
        values = [letter[lit] for lit in ENUM_LITERALS]
    admitted = []
    for value in values:
        instance = _instance(**{prop: value})
        if all(holds(expr, instance) for expr in check["recognised"]):
            admitted.append(value)
    return values, admitted


def inferred_admits(constraints: Any, value: Any, domain: str) -> bool:
    if constraints is None:
        return True
    if domain == "len":
        lc = constraints.len_constraint
        if lc is not None:
            if lc.min_value is not None and len(value) < lc.min_value:
                return False
            if lc.max_value is not None and len(value) > lc.max_value:
                return False
        return True
    if domain == "str":
        if constraints.patterns is not None:
            for pattern in constraints.patterns:
                if re.match(pattern.pattern, value) is None:
                    return False
        return True
    if domain == "strset":
        if constraints.set_of_primitives is not None:
            return value in {lit.value for lit in constraints.set_of_primitives.literals}
        return True
    if domain == "enum":
        if constraints.set_of_enumeration_literals is not None:
            return value.name in {
                lit.name for lit in constraints.set_of_enumeration_literals.literals
            }
        return True
    raise AssertionError(domain)


def other_constraints_present(constraints: Any, domain: str) -> List[str]:
    """Constraints of another sort than expected for the domain (must not appear)."""
    if constraints is None:
        return []
    present = []
    if domain != "len" and constraints.len_constraint is not None:
        present.append("len")
    if domain != "str" and constraints.patterns is not None:
        present.append("patterns")
    if domain != "strset" and constraints.set_of_primitives is not None:
        present.append("set_of_primitives")
    if domain != "enum" and constraints.set_of_enumeration_literals is not None:
        present.append("set_of_enumeration_literals")
    return present


def check_case(case: Any) -> Tuple[List[Violation], str]:
    from aas_core_codegen import infer_for_schema, intermediate
    from verif.checks.c05 import translate

    family = case["family"]
    spec = case["spec"]
    kind = spec.get("kind", "str")
    source = render_model(spec)
    replay_case = {"family": family, "spec": spec, "checks": case["checks"]}

    try:
        table, error = translate(source)
    except Exception:
        return [], "front-end-crash(C01)"
    if error is not None:
        return [], "front-end-rejects"
    assert table is not None

    try:
        mapping, errors = infer_for_schema.infer_constraints_by_class(symbol_table=table)
    except Exception as exc:
        return (
            [Violation("crash:" + crash_signature(exc), f"{family}: {short_exc(exc)[:200]}", replay_case)],
            "crash",
        )

    violations = []  # type: List[Violation]
    any_unsatisfiable = False
    outcome = "inferred"
    for check in case["checks"]:
        values, admitted = reference_admitted(check, kind)
        if len(admitted) == 0:
            any_unsatisfiable = True

    if errors is not None:
        if not any_unsatisfiable:
            return [], "errors-for-satisfiable(lenient)"
        return [], "errors-for-unsatisfiable"
    assert mapping is not None
    if any_unsatisfiable:
        violations.append(
            Violation(
                f"unsatisfiable-accepted:{family.split('-')[0]}",
                f"{family}: invariants {spec['parent_invs']} / {spec.get('child_invs')} / "
                f"{spec.get('prim')} admit no value, but no error is reported",
                replay_case,
            )
        )
        return violations, "unsatisfiable-accepted"

    for check in case["checks"]:
        cls = table.find_our_type(check["cls"])
        assert isinstance(cls, (intermediate.AbstractClass, intermediate.ConcreteClass))
        prop = cls.properties_by_name[check["prop"]]
        type_anno = intermediate.beneath_optional(prop.type_annotation)
        constraints = mapping[cls].get(type_anno, None)
        values, admitted = reference_admitted(check, kind)
        got = [v for v in values if inferred_admits(constraints, v, check["domain"])]
        if got != admitted:
            def show(items: List[Any]) -> Any:
                if check["domain"] == "len":
                    return [len(v) for v in items]
                if check["domain"] == "enum":
                    return [v.name for v in items]
                return items

            looser = [v for v in got if v not in admitted]
            kind_of = "too-loose" if looser and len(got) > len(admitted) else "too-tight"
            if not check["recognised"]:
                kind_of = "unrecognised-form-misread"
            violations.append(
                Violation(
                    f"{kind_of}:{family}",
                    f"{check['cls']}.{check['prop']}: inferred admits {show(got)}, "
                    f"invariants {check['recognised']} admit {show(admitted)}; model "
                    f"invariants: {spec['parent_invs']} / {spec.get('child_invs')} / {spec.get('prim')}",
                    replay_case,
                )
            )
        extra = other_constraints_present(constraints, check["domain"])
        if extra and spec.get("prim") is None:
            violations.append(
                Violation(
                    f"foreign-constraint:{family}",
                    f"{check['cls']}.{check['prop']}: unexpected constraints {extra}",
                    replay_case,
                )
            )
    return violations, outcome


def work(shard: Any) -> Result:
    family, arg, index, slices = shard
    result = Result()
    for number, case in enumerate(cases_of_family(family, arg)):
        if number % slices != index:
            continue
        violations, outcome = check_case(case)
        result.states += 1
        result.outcomes.add(outcome)
        result.extra.setdefault("outcome_counts", {})
        result.extra["outcome_counts"][outcome] = result.extra["outcome_counts"].get(outcome, 0) + 1
        if outcome.startswith("front-end"):
            continue
        result.evaluations += 1
        result.transitions += sum(
            len(LEN_DOMAIN) if c["domain"] == "len" else len(STR_DOMAIN) if c["domain"] == "str" else 5
            for c in case["checks"]
        )
        if any(c["recognised"] for c in case["checks"]):
            result.nontrivial += 1
        for v in violations:
            result.add_violation(v.signature, v.message, v.case)
        if len(result.samples) < 1 and index == 3 and outcome == "inferred":
            result.samples.append({"family": case["family"], "invariants": case["spec"]["parent_invs"], "child": case["spec"].get("child_invs")})
    return result


def replay(case: Any) -> List[Violation]:
    return check_case(case)[0]
