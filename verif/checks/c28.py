"""C28 — the smoke check agrees with the real generators."""
from __future__ import annotations

import io
import pathlib
import shutil
from typing import Any, Dict, Iterator, List, Optional, Tuple

from verif import gen_dev, harness, stream
from verif.checks import c03
from verif.core import (
    CaseTimeout,
    Result,
    Violation,
    crash_signature,
    short_exc,
    time_limit,
    worker_tmp,
)

ID = "C28"

META = {
    "technique": (
        "exhaustive enumeration of the single-deviation stream; the smoke verdict is "
        "compared with independently computed verdicts of the front end, constraint "
        "inference and C# type/verification generation, and with the real csharp / "
        "jsonschema targets; recorded smoke cases replayed"
    ),
    "rule": (
        "every d=1 mutant of the seeds: S = smoke.execute(model) == 0 must equal "
        "F and I and T and V (F: run.load_model succeeds; I: "
        "infer_constraints_by_class returns no errors; T: csharp verify_for_types + "
        "generate_types succeed; V: generate_verification succeeds, with dummy "
        "snippets for every implementation-specific item); S false => non-empty report "
        "in the C03 grammar; main.execute(csharp) == 0 and I => S; S => the jsonschema "
        "target does not fail in constraint inference; plus the 5 recorded cases under "
        "dev/test_data/smoke (stderr equal up to the model path); non-trivial = mutants "
        "reaching the intermediate stage"
    ),
    "bounds": {
        "quick": "d=1 reduced menus on the 8 common seeds; 5 recorded cases",
        "thorough": "d=1 full menus on all seeds; 5 recorded cases",
    },
    "assumptions": [
        "a crash of the smoke tool or of a component is reported by C01/C02, not here",
    ],
}


def shards(tier: str) -> List[Any]:
    result = [
        ("dev",) + shard
        for shard in stream.shards(tier)
        if not (tier == "quick" and shard[0] == "kitchen_sink")
    ]
    result.append(("recorded",))
    return result


def components(model_path: pathlib.Path) -> Optional[Dict[str, Any]]:
    """F, I, T, V computed by separate calls into the real code."""
    from aas_core_codegen import infer_for_schema, intermediate, run, specific_implementations
    from aas_core_codegen.common import Stripped
    from aas_core_codegen.csharp import common as csharp_common, lib as csharp_lib

    result, error = run.load_model(model_path, cache_model=False)
    if error is not None:
        return {"F": False, "stage": "front-end"}
    assert result is not None
    symbol_table, _ = result
    verdict = {"F": True}  # type: Dict[str, Any]

    _, errors = infer_for_schema.infer_constraints_by_class(symbol_table=symbol_table)
    verdict["I"] = errors is None

    verified, type_errors = csharp_lib.verify_for_types(symbol_table)
    if type_errors is not None:
        verdict["T"] = False
        verdict["V"] = None  # not reached by the smoke tool either way
        return verdict

    dummy = Stripped("DUMMY IMPLEMENTATION")
    spec_impls = {}  # type: Dict[Any, Any]
    for cls in symbol_table.classes:
        if cls.is_implementation_specific:
            spec_impls[specific_implementations.ImplementationKey(f"Types/{cls.name}/{cls.name}.cs")] = dummy
            continue
        for method in cls.methods:
            if isinstance(method, intermediate.ImplementationSpecificMethod):
                spec_impls[
                    specific_implementations.ImplementationKey(f"Types/{cls.name}/{method.name}.cs")
                ] = dummy
    for verification in symbol_table.verification_functions:
        if isinstance(verification, intermediate.ImplementationSpecificVerification):
            spec_impls[
                specific_implementations.ImplementationKey(f"Verification/{verification.name}.cs")
            ] = dummy
    namespace = csharp_common.NamespaceIdentifier("DummyNamespace")
    _, errors = csharp_lib.generate_types(
        symbol_table=verified, namespace=namespace, spec_impls=spec_impls
    )
    verdict["T"] = errors is None
    _, errors = csharp_lib.generate_verification(
        symbol_table=symbol_table, namespace=namespace, spec_impls=spec_impls
    )
    verdict["V"] = errors is None
    return verdict


def check_text(text: str, seed: str, info: Any) -> Tuple[List[Violation], str, bool]:
    from aas_core_codegen.smoke import main as smoke_main

    base = worker_tmp() / "c28"
    case = {"kind": "dev", "text": text, "seed": seed, "info": info}
    violations = []  # type: List[Violation]
    try:
        model_path = stream.write_model(base, text)
        stderr = io.StringIO()
        try:
            rc = smoke_main.execute(model_path=model_path, stderr=stderr)
        except Exception:
            return [], "smoke-crash(C02)", False
        smoke_ok = rc == 0
        report = stderr.getvalue()

        try:
            verdict = components(model_path)
        except Exception:
            return [], "component-crash(C01/C02)", False
        assert verdict is not None

        if not verdict["F"]:
            expected = False
        elif not verdict["I"]:
            expected = False
        elif not verdict["T"]:
            expected = False
        else:
            expected = bool(verdict["V"])

        if smoke_ok != expected:
            which = "smoke-passes-although-component-fails" if smoke_ok else "smoke-fails-although-components-pass"
            violations.append(
                Violation(
                    which,
                    f"smoke rc={rc}, components={verdict}, report={report[:120]!r}",
                    case,
                )
            )
        if rc not in (0, 1):
            violations.append(Violation("smoke-exit-status", f"rc={rc}", case))
        if not smoke_ok:
            reason = c03.report_ok(report)
            if reason is not None:
                violations.append(
                    Violation(f"smoke-report-grammar:{reason}", f"report={report[:160]!r}", case)
                )
        elif report != "":
            violations.append(
                Violation("smoke-ok-with-stderr", f"report={report[:160]!r}", case)
            )

        nontrivial = verdict["F"]
        if verdict["F"]:
            # the differential against the real targets
            assert seed is not None
            for target in ("csharp", "jsonschema"):
                snippets = stream.snippets_for(seed, target, worker_tmp() / "c28-snippets")
                out = base / f"out-{target}"
                try:
                    t_rc, _, t_stderr = harness.execute(model_path, target, snippets, out)
                except Exception:
                    continue
                finally:
                    shutil.rmtree(out, ignore_errors=True)
                if target == "csharp" and t_rc == 0 and verdict.get("I") and not smoke_ok:
                    violations.append(
                        Violation(
                            "csharp-generates-but-smoke-fails",
                            f"csharp rc=0, smoke report={report[:120]!r}",
                            case,
                        )
                    )
                if target == "jsonschema" and smoke_ok and "infer the constraints" in t_stderr:
                    violations.append(
                        Violation(
                            "smoke-passes-but-inference-fails-in-jsonschema",
                            f"jsonschema stderr={t_stderr[:120]!r}",
                            case,
                        )
                    )
        outcome = "S=%d F=%s I=%s T=%s V=%s" % (
            smoke_ok, verdict.get("F"), verdict.get("I"), verdict.get("T"), verdict.get("V"),
        )
        return violations, outcome, nontrivial
    finally:
        shutil.rmtree(base, ignore_errors=True)


def check_recorded() -> Result:
    from aas_core_codegen.smoke import main as smoke_main

    result = Result()
    root = harness.TEST_DATA / "smoke" / "test_main" / "unexpected"
    for model_path in sorted(root.glob("**/meta_model.py")):
        expected_path = model_path.parent / "expected_stderr.txt"
        case = {"kind": "recorded", "case": str(model_path.parent.relative_to(root))}
        stderr = io.StringIO()
        try:
            rc = smoke_main.execute(model_path=model_path, stderr=stderr)
        except Exception as exc:
            result.add_violation("recorded-crash:" + crash_signature(exc), short_exc(exc), case)
            continue
        result.evaluations += 1
        result.states += 1
        result.transitions += 1
        result.nontrivial += 1
        got = stderr.getvalue().replace(str(model_path), "<meta_model.py>")
        expected = expected_path.read_text(encoding="utf-8")
        if rc != 1:
            result.add_violation("recorded-exit-status", f"rc={rc} for {case['case']}", case)
        if got != expected:
            result.add_violation(
                "recorded-report-differs",
                f"{case['case']}: got {got[:100]!r}, expected {expected[:100]!r}",
                case,
            )
        result.outcomes.add("recorded-match" if got == expected else "recorded-differs")
    result.samples.append({"recorded_cases": result.evaluations})
    return result


def work(shard: Any) -> Result:
    if shard[0] == "recorded":
        return check_recorded()
    _, seed, menu, index, slices = shard
    result = Result()
    for descriptor, text in gen_dev.mutants_of_shard(seed, menu, index, slices):
        try:
            with time_limit(120):
                violations, outcome, nontrivial = check_text(
                    text, seed, {"seed": seed, "deviation": descriptor}
                )
        except CaseTimeout:
            result.timeouts += 1
            continue
        result.states += 1
        result.outcomes.add(outcome)
        if "crash" in outcome:
            continue
        result.evaluations += 1
        result.transitions += 1
        if nontrivial:
            result.nontrivial += 1
        for v in violations:
            result.add_violation(v.signature, v.message, v.case)
        if len(result.samples) < 1 and nontrivial and index == 2 and "S=0" in outcome:
            result.samples.append({"seed": seed, "deviation": descriptor, "outcome": outcome})
    return result


def replay(case: Any) -> List[Violation]:
    if case.get("kind") == "recorded":
        return check_recorded().violations
    return check_text(case["text"], case["seed"], case.get("info"))[0]
