"""C29 — Python SDK traversal and accessors are complete."""
from __future__ import annotations

import itertools
import shutil
from typing import Any, Dict, Iterator, List, Optional, Tuple

from verif import sdk
from verif.core import CaseTimeout, Result, Violation, short_exc, time_limit, worker_tmp

ID = "C29"

META = {
    "technique": (
        "exhaustive enumeration of object graphs up to a depth over small recursive "
        "meta-models through the generated and imported Python SDK; descend_once / "
        "descend / visitor and transformer dispatch / pass-through visitors / "
        "over_X_or_empty / X_or_default compared, by object identity, with a traversal "
        "model computed from the meta-model description"
    ),
    "rule": (
        "models: {abstract Node with modelType; Leaf_node, Branch(left: Node, right: "
        "Optional[Node], items: List[Node], perhaps: Optional[List[Leaf_node]], count: int, "
        "notes: Optional[List[str]]), Special_branch(Branch, Decorated) without own "
        "properties, where the abstract Decorated contributes a class-typed property; Root(first: Node, remaining: Optional[List[Branch]], leaf: Leaf_node, "
        "tag: str)} in 3 property orders (class-typed properties first / interleaved / "
        "last) and with an implementation-specific `label_or_default` declared on the "
        "abstract class; instances: every graph built from per-type value menus up to "
        "depth D (Optional: None or value; lists: [], [v] for every v, [v0,v1], [v1,v0]); "
        "oracle: descend_once == directly nested instances in property and list order; "
        "descend == pre-order closure; both by identity and without duplicates; "
        "accept/transform (with and without context) call exactly the method named "
        "after the concrete class; PassThroughVisitor visits root + descend in order; "
        "over_X_or_empty yields the list items or nothing; X_or_default returns the "
        "value or the default of the snippet; non-trivial = graphs with >= 3 nodes"
    ),
    "bounds": {
        "quick": "depth 2 for Branch (all combinations) and Special_branch (over 3 nodes), Root over depth-1 nodes; 3 property orders",
        "thorough": "depth 2 for Branch and Special_branch, Root over depth-2 left spines (first two values per menu for lists at depth 2); 6 property orders",
    },
    "assumptions": [
        "method names follow the documented convention visit_<snake case of the class "
        "name> / transform_<...> (lower-casing of `Leaf_node` etc.)",
        "X_or_default bodies are implementation-specific snippets: the check supplies "
        "the snippet and verifies that it is embedded in the right classes and "
        "behaves as written",
    ],
}

ORDERS = {
    0: None,  # as declared below
    1: "class-first",
    2: "class-last",
    3: "reversed",
    4: "rotated",
    5: "rotated2",
}


def _ordered(props: List[Tuple[str, str]], order: int) -> List[Tuple[str, str]]:
    def is_class(annotation: str) -> bool:
        return any(name in annotation for name in ("Node", "Branch", "Leaf_node"))

    if order == 0:
        return list(props)
    if order == 1:
        return [p for p in props if is_class(p[1])] + [p for p in props if not is_class(p[1])]
    if order == 2:
        return [p for p in props if not is_class(p[1])] + [p for p in props if is_class(p[1])]
    if order == 3:
        return list(reversed(props))
    if order == 4:
        return props[2:] + props[:2]
    return props[3:] + props[:3]


OR_DEFAULT = '''\
    @implementation_specific
    def label_or_default(self) -> str:
        """Return the :attr:`label` if set or the default otherwise."""
'''

SNIPPET = '''\
def label_or_default(self) -> str:
    """Return the :py:attr:`label` if set or the default otherwise."""
    return self.label if self.label is not None else "the-default"
'''


def model(order: int) -> sdk.Spec:
    branch_props = [
        ("count", "int"),
        ("left", "Node"),
        ("right", "Optional[Node]"),
        ("notes", "Optional[List[str]]"),
        ("items", "List[Node]"),
        ("perhaps", "Optional[List[Leaf_node]]"),
    ]
    root_props = [
        ("tag", "str"),
        ("first", "Node"),
        ("remaining", "Optional[List[Branch]]"),
        ("leaf", "Leaf_node"),
    ]
    return sdk.Spec(
        classes=[
            sdk.Cls(
                "Node",
                [("name", "str"), ("label", "Optional[str]")],
                abstract=True,
                model_type=True,
                extra_body=OR_DEFAULT,
            ),
            sdk.Cls("Leaf_node", [], bases=["Node"]),
            sdk.Cls("Branch", _ordered(branch_props, order), bases=["Node"]),
            # a second, abstract parent which contributes a class-typed property to a
            # class without own properties (multiple inheritance)
            sdk.Cls("Decorated", [("special", "Optional[Leaf_node]")], abstract=True),
            sdk.Cls("Special_branch", [], bases=["Branch", "Decorated"]),
            sdk.Cls("Root", _ordered(root_props, order)),
        ]
    )


SNIPPETS = {"Types/Node/label_or_default.py": SNIPPET}


def shards(tier: str) -> List[Any]:
    orders = [0, 1, 2] if tier == "quick" else [0, 1, 2, 3, 4, 5]
    result = []  # type: List[Any]
    for order in orders:
        for part in range(8):
            result.append((tier, order, part, 8))
    return result


# --------------------------------------------------------------------------------------
# Instances
# --------------------------------------------------------------------------------------


def leaf(name: str = "l", label: Optional[str] = None) -> Dict[str, Any]:
    return {"__class__": "Leaf_node", "name": name, "label": label}


def list_menu(values: List[Any]) -> List[Any]:
    result = [[]]  # type: List[Any]
    result.extend([value] for value in values)
    if len(values) >= 2:
        result.append([values[0], values[1]])
        result.append([values[1], values[0]])
    elif values:
        result.append([values[0], values[0]])
    return result


def branches(spec: sdk.Spec, nodes: List[Any], cls: str, reduced: bool) -> Iterator[Dict[str, Any]]:
    """Every Branch whose class-typed properties take values from ``nodes``."""
    leaves = [leaf(), leaf("m", "labelled")]
    lefts = nodes
    rights = [None] + nodes
    items = list_menu(nodes[:2] if reduced else nodes)
    maybes = [None] + list_menu(leaves[:1])
    notes = [None, [], ["n"]]
    specials = [None, leaf("s")] if cls == "Special_branch" else [None]
    for left, right, item, perhaps, special in itertools.product(lefts, rights, items, maybes, specials):
        note = notes[(len(item) + (0 if right is None else 1)) % 3]
        instance = {"__class__": cls}
        for name, _ in spec.all_props(cls):
            instance[name] = {
                "name": "b", "label": None if perhaps is None else "x", "count": 1, "left": left,
                "right": right, "notes": note, "items": item, "perhaps": perhaps, "special": special,
            }[name]
        yield instance


def instances(spec: sdk.Spec, tier: str) -> Iterator[Dict[str, Any]]:
    depth0 = [leaf(), leaf("m", "labelled")]
    depth1 = list(branches(spec, depth0[:1], "Branch", False))
    nodes1 = depth0 + depth1
    # depth 2: all combinations over the depth-1 nodes
    reduced = True
    for instance in depth0:
        yield instance
    for instance in depth1:
        yield instance
    for instance in branches(spec, nodes1, "Branch", reduced):
        yield instance
    for instance in branches(spec, nodes1[:6] if tier == "thorough" else nodes1[:3], "Special_branch", reduced):
        yield instance
    # roots
    firsts = nodes1
    remaining = [None] + list_menu(depth1[:3] if tier == "quick" else depth1)
    for first, remaining_value in itertools.product(firsts, remaining):
        instance = {"__class__": "Root"}
        for name, _ in spec.all_props("Root"):
            instance[name] = {"tag": "t", "first": first, "remaining": remaining_value, "leaf": leaf("z")}[name]
        yield instance


def count_nodes(value: Any) -> int:
    if isinstance(value, dict):
        return 1 + sum(count_nodes(v) for k, v in value.items() if k != "__class__")
    if isinstance(value, list):
        return sum(count_nodes(v) for v in value)
    return 0


# --------------------------------------------------------------------------------------
# Reference traversal (on the SDK objects, driven by the description)
# --------------------------------------------------------------------------------------


def ref_descend_once(spec: sdk.Spec, obj: Any) -> List[Any]:
    result = []  # type: List[Any]
    for name, annotation in spec.all_props(sdk.PythonSdk.spec_name(spec, obj)):
        typ = sdk.parse_type(spec, annotation)
        if typ[0] == "opt":
            typ = typ[1]
        value = getattr(obj, name)
        if value is None:
            continue
        if typ[0] == "class":
            result.append(value)
        elif typ[0] == "list" and typ[1][0] == "class":
            result.extend(value)
    return result


def ref_descend(spec: sdk.Spec, obj: Any) -> List[Any]:
    result = []  # type: List[Any]
    for child in ref_descend_once(spec, obj):
        result.append(child)
        result.extend(ref_descend(spec, child))
    return result


def same_sequence(left: List[Any], right: List[Any]) -> bool:
    return len(left) == len(right) and all(a is b for a, b in zip(left, right))


def make_recorders(spec: sdk.Spec, python_sdk: sdk.PythonSdk) -> Dict[str, Any]:
    types_module = python_sdk.types
    concrete = [c.name for c in spec.classes if not c.abstract]

    def recorder(base: Any, prefix: str, suffix: str, with_context: bool, returns: bool) -> Any:
        namespace = {}  # type: Dict[str, Any]
        for cls_name in concrete:
            method_name = f"{prefix}_{cls_name.lower()}{suffix}"

            def method(self: Any, that: Any, *args: Any, _cls_name: str = cls_name) -> Any:
                self.calls.append((_cls_name, that, args))
                return _cls_name if returns else None

            namespace[method_name] = method

        def init(self: Any) -> None:
            self.calls = []

        namespace["__init__"] = init
        return type(f"Recording{base.__name__}", (base,), namespace)

    return {
        "visitor": recorder(types_module.AbstractVisitor, "visit", "", False, False),
        "visitor_ctx": recorder(types_module.AbstractVisitorWithContext, "visit", "_with_context", True, False),
        "transformer": recorder(types_module.AbstractTransformer, "transform", "", False, True),
        "transformer_ctx": recorder(
            types_module.AbstractTransformerWithContext, "transform", "_with_context", True, True
        ),
    }


def check_instance(
    spec: sdk.Spec, python_sdk: sdk.PythonSdk, recorders: Dict[str, Any], instance: Dict[str, Any]
) -> List[Tuple[str, str]]:
    """(signature, message) of every breach on one object graph."""
    problems = []  # type: List[Tuple[str, str]]
    root = python_sdk.build(spec, instance)
    todo = [root] + ref_descend(spec, root)
    for obj in todo:
        cls_name = sdk.PythonSdk.spec_name(spec, obj)
        expected_once = ref_descend_once(spec, obj)
        try:
            got_once = list(obj.descend_once())
        except Exception as exc:
            problems.append((f"descend_once-raised:{cls_name}", short_exc(exc)))
            continue
        if not same_sequence(got_once, expected_once):
            problems.append(
                (
                    f"descend_once:{cls_name}",
                    f"{cls_name}.descend_once gave {[type(o).__name__ for o in got_once]} "
                    f"instead of {[type(o).__name__ for o in expected_once]}",
                )
            )
        expected_all = ref_descend(spec, obj)
        try:
            got_all = list(obj.descend())
        except Exception as exc:
            problems.append((f"descend-raised:{cls_name}", short_exc(exc)))
            continue
        if not same_sequence(got_all, expected_all):
            problems.append(
                (
                    f"descend:{cls_name}",
                    f"{cls_name}.descend gave {len(got_all)} instances "
                    f"{[type(o).__name__ for o in got_all][:8]} instead of {len(expected_all)} "
                    f"{[type(o).__name__ for o in expected_all][:8]}",
                )
            )
        # dispatch
        context = object()
        for kind, call in (
            ("visitor", lambda r: obj.accept(r)),
            ("visitor_ctx", lambda r: obj.accept_with_context(r, context)),
            ("transformer", lambda r: obj.transform(r)),
            ("transformer_ctx", lambda r: obj.transform_with_context(r, context)),
        ):
            rec = recorders[kind]()
            try:
                returned = call(rec)
            except Exception as exc:
                problems.append((f"dispatch-raised:{kind}:{cls_name}", short_exc(exc)))
                continue
            ok = (
                len(rec.calls) == 1
                and rec.calls[0][0] == cls_name
                and rec.calls[0][1] is obj
                and (not kind.endswith("_ctx") or (len(rec.calls[0][2]) == 1 and rec.calls[0][2][0] is context))
                and (not kind.startswith("transformer") or returned == cls_name)
            )
            if not ok:
                problems.append(
                    (
                        f"dispatch:{kind}:{cls_name}",
                        f"{kind} on a {cls_name} recorded {[c[0] for c in rec.calls]} and returned {returned!r}",
                    )
                )
        # generic dispatch through visit() / transform()
        rec = recorders["visitor"]()
        rec.visit(obj)
        if [c[0] for c in rec.calls] != [cls_name]:
            problems.append((f"dispatch:visit():{cls_name}", f"visit() recorded {[c[0] for c in rec.calls]}"))
        rec = recorders["transformer"]()
        if rec.transform(obj) != cls_name:
            problems.append((f"dispatch:transform():{cls_name}", "transform() dispatched wrongly"))
        # accessors
        for name, annotation in spec.all_props(cls_name):
            typ = sdk.parse_type(spec, annotation)
            if typ[0] == "opt" and typ[1][0] == "list":
                accessor = getattr(obj, f"over_{name}_or_empty", None)
                if accessor is None:
                    problems.append((f"over_or_empty-missing:{cls_name}.{name}", "no accessor"))
                    continue
                value = getattr(obj, name)
                try:
                    got = list(accessor())
                except Exception as exc:
                    problems.append(
                        (f"over_or_empty-raised:{cls_name}.{name}", f"raised {short_exc(exc)[:100]} for {value!r:.60}")
                    )
                    continue
                expected = list(value) if value is not None else []
                if not (len(got) == len(expected) and all(a is b or a == b for a, b in zip(got, expected))):
                    problems.append(
                        (f"over_or_empty:{cls_name}.{name}", f"yielded {got!r:.80} for {value!r:.80}")
                    )
        if "Node" in [cls_name] + spec.ancestors(cls_name):
            accessor = getattr(obj, "label_or_default", None)
            if accessor is None:
                problems.append((f"or_default-missing:{cls_name}", "label_or_default is missing"))
            else:
                expected_label = obj.label if obj.label is not None else "the-default"
                if accessor() != expected_label:
                    problems.append((f"or_default:{cls_name}", f"gave {accessor()!r} for label {obj.label!r}"))
    # pass-through visitor: root, then everything in pre-order
    visited = []  # type: List[Any]

    class Recorder(python_sdk.types.PassThroughVisitor):  # type: ignore
        def visit(self, that: Any) -> None:
            visited.append(that)
            super().visit(that)

    Recorder().visit(root)
    expected_visit = [root] + ref_descend(spec, root)
    if not same_sequence(visited, expected_visit):
        problems.append(
            (
                f"pass-through-visitor:{type(root).__name__}",
                f"visited {[type(o).__name__ for o in visited][:8]} instead of "
                f"{[type(o).__name__ for o in expected_visit][:8]}",
            )
        )
    visited_ctx = []  # type: List[Any]

    class RecorderCtx(python_sdk.types.PassThroughVisitorWithContext):  # type: ignore
        def visit_with_context(self, that: Any, context: Any) -> None:
            visited_ctx.append(that)
            super().visit_with_context(that, context)

    RecorderCtx().visit_with_context(root, 1)
    if not same_sequence(visited_ctx, expected_visit):
        problems.append(
            (f"pass-through-visitor-ctx:{type(root).__name__}", "visited a different sequence")
        )
    return problems


def work(shard: Any) -> Result:
    tier, order, part, parts = shard
    result = Result()
    spec = model(order)
    base = worker_tmp() / "c29"
    python_sdk, stderr = sdk.python_sdk(sdk.render(spec), base, "Root", SNIPPETS)
    if python_sdk is None:
        result.extra["harness_errors"] = [f"model {order} rejected: {stderr[:300]}"]
        return result
    try:
        recorders = make_recorders(spec, python_sdk)
        for number, instance in enumerate(instances(spec, tier)):
            if number % parts != part:
                continue
            result.states += 1
            result.evaluations += 1
            nodes = count_nodes(instance)
            result.transitions += nodes
            if nodes >= 3:
                result.nontrivial += 1
            try:
                with time_limit(30):
                    problems = check_instance(spec, python_sdk, recorders, instance)
            except CaseTimeout:
                result.timeouts += 1
                continue
            except Exception as exc:
                # an exception escaping the generated SDK is a breach, not a harness failure
                problems = [(f"sdk-raised:{type(exc).__name__}", short_exc(exc)[:160])]
            result.outcomes.add(f"nodes={min(nodes, 12)}")
            for signature, message in problems:
                result.add_violation(signature, message, {"order": order, "instance": sdk.show(instance)})
            if len(result.samples) < 1 and nodes == 5:
                result.samples.append({"order": order, "instance": sdk.show(instance)})
    finally:
        python_sdk.close()
        shutil.rmtree(base, ignore_errors=True)
    return result


def replay(case: Any) -> List[Violation]:
    spec = model(case["order"])
    base = worker_tmp() / "c29-replay"
    python_sdk, stderr = sdk.python_sdk(sdk.render(spec), base, "Root", SNIPPETS)
    assert python_sdk is not None, stderr
    try:
        recorders = make_recorders(spec, python_sdk)
        problems = check_instance(spec, python_sdk, recorders, sdk.unshow(case["instance"]))
        return [Violation(sig, msg, case) for sig, msg in problems]
    finally:
        python_sdk.close()
        shutil.rmtree(base, ignore_errors=True)
