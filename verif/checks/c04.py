"""C04 — reported error locations point at the offending construct."""
from __future__ import annotations

import ast
import itertools
import re
import shutil
from typing import Any, Iterator, List, Optional, Set, Tuple

from verif import gen_dev, harness, stream
from verif.core import (
    CaseTimeout,
    Result,
    Violation,
    crash_signature,
    short_exc,
    time_limit,
    worker_tmp,
)

ID = "C04"

META = {
    "technique": (
        "exhaustive enumeration of small source texts x every AST node against an "
        "independent offset->(line, column) function; plus every located error of the "
        "deviation stream checked against the set of node start positions of the input"
    ),
    "rule": (
        "unit level: every text of <= N line shapes {blank, comment, call continued "
        "over two lines, decorated class, indented statement, statement preceded by a "
        "2-byte / 4-byte UTF-8 character, tab-indented statement, CRLF-terminated "
        "statement, docstring, nested call, comment / string / line start with FF, VT, FS, GS, NEL, LS, PS} x every AST node of the text: "
        "LinenoColumner.error_message(Error(node)) must name (line, column) = position "
        "of the node's first character (asttokens text range); system level: every `At "
        "line L and column C` of every report over the single-deviation stream must be "
        "within the text and equal to the start of some AST node or decorator `@`; "
        "non-trivial = located reports / nodes on lines >= 2"
    ),
    "bounds": {
        "quick": "N=3 line shapes (all texts); stream: d=1 mutants of the 8 common seeds (reduced menu)",
        "thorough": "N=4 line shapes; stream: d=1 mutants of all seeds (full menu)",
    },
    "assumptions": [
        "asttokens' text range is the trusted start offset of a node (for decorated "
        "definitions it is the `@`, which the property allows as enclosing statement)",
        "the system-level condition is necessary, not sufficient: it does not decide "
        "which node is `the offending construct`",
    ],
}

SHAPES = [
    "",
    "# comment",
    "x: int = f(1,\n    2)",
    "@decorator\nclass K:\n    y = 1",
    "if a:\n    b = 1",
    "s = '\u00e9' + t",
    "s = '\U0001F600' + t",
    "if a:\n\tb = g(h(1), 2)",
    "c = 1\r",
    '"""Doc."""',
    "v = [p, (q, r)]",
    # characters which ``str.splitlines`` takes for line boundaries but Python does not
    "# form\x0cfeed \x0b \x1c in a comment",
    "w = 'a\u2028b' + t",
    "u = 'a\x85b\x1dc\u2029' + t",
    "\x0cz = g(1)",
]


def shards(tier: str) -> List[Any]:
    n = 3 if tier == "quick" else 4
    result = []  # type: List[Any]
    for length in range(1, n + 1):
        for first in range(len(SHAPES)):
            result.append(("unit", length, first))
    for shard in stream.shards(tier):
        if tier == "quick" and shard[0] == "kitchen_sink":
            continue
        result.append(("stream",) + shard)
    return result


# --------------------------------------------------------------------------------------
# Reference
# --------------------------------------------------------------------------------------


def linecol(text: str, offset: int) -> Tuple[int, int]:
    """1-based line and column (in characters) of the character at ``offset``."""
    line = text.count("\n", 0, offset) + 1
    last_newline = text.rfind("\n", 0, offset)
    return line, offset - last_newline


_LOCATION_RE = re.compile(r"At line (\d+) and column (\d+): ")


def node_starts(text: str) -> Optional[Set[Tuple[int, int]]]:
    """(line, column) of the first character of every AST node and decorator `@`."""
    try:
        tree = ast.parse(text)
    except (SyntaxError, ValueError, RecursionError):
        return None
    lines = text.split("\n")
    starts = {(1, 1)}  # the module itself
    for node in ast.walk(tree):
        lineno = getattr(node, "lineno", None)
        col = getattr(node, "col_offset", None)
        if lineno is None or col is None:
            continue
        if not (1 <= lineno <= len(lines)):
            continue
        line = lines[lineno - 1]
        # ``col_offset`` counts UTF-8 bytes
        prefix = line.encode("utf-8")[:col].decode("utf-8", errors="ignore")
        starts.add((lineno, len(prefix) + 1))
        for decorator in getattr(node, "decorator_list", []):
            d_line = lines[decorator.lineno - 1]
            d_prefix = d_line.encode("utf-8")[: decorator.col_offset].decode("utf-8", errors="ignore")
            at = d_prefix.rfind("@")
            if at >= 0:
                starts.add((decorator.lineno, at + 1))
    # ``ast.comprehension`` nodes carry no position; an error located at one points to its
    # ``for`` (or ``async``) keyword, which is the start of that construct.
    import io
    import tokenize

    try:
        for token in tokenize.generate_tokens(io.StringIO(text).readline):
            if token.type == tokenize.NAME and token.string in ("for", "async"):
                starts.add((token.start[0], token.start[1] + 1))
    except (tokenize.TokenError, IndentationError, SyntaxError):
        pass
    return starts


# --------------------------------------------------------------------------------------
# Unit level
# --------------------------------------------------------------------------------------


def unit_texts(length: int, first: int) -> Iterator[str]:
    for rest in itertools.product(range(len(SHAPES)), repeat=length - 1):
        shapes = [SHAPES[first]] + [SHAPES[i] for i in rest]
        yield "\n".join(shapes) + "\n"


def check_unit(text: str) -> Tuple[List[Violation], int, int]:
    import asttokens

    from aas_core_codegen.common import Error, LinenoColumner

    case = {"kind": "unit", "text": text}
    try:
        atok = asttokens.ASTTokens(text, parse=True)
    except (SyntaxError, ValueError):
        return [], 0, 0
    try:
        columner = LinenoColumner(atok=atok)
    except Exception as exc:
        return [Violation("crash:" + crash_signature(exc), short_exc(exc), case)], 0, 0
    violations = []  # type: List[Violation]
    nodes = 0
    later_lines = 0
    for node in ast.walk(atok.tree):
        if not hasattr(node, "first_token"):
            continue
        if isinstance(node, ast.Module) and len(text.strip()) == 0:
            continue
        try:
            start, _ = atok.get_text_range(node, padded=False)
        except TypeError:
            start, _ = atok.get_text_range(node)
        expected = linecol(text, start)
        nodes += 1
        if expected[0] >= 2:
            later_lines += 1
        try:
            message = columner.error_message(Error(node, "m"))
        except Exception as exc:
            violations.append(
                Violation("crash:" + crash_signature(exc), short_exc(exc), case)
            )
            continue
        match = _LOCATION_RE.match(message)
        if match is None:
            violations.append(
                Violation("no-location", f"{message!r} for {type(node).__name__}", case)
            )
            continue
        got = (int(match.group(1)), int(match.group(2)))
        # the first character of the construct, or the first character of its line
        if got != expected and got != (expected[0], 1):
            what = "line" if got[0] != expected[0] else "column"
            first_or_later = "first-line" if expected[0] == 1 else "later-line"
            violations.append(
                Violation(
                    f"wrong-{what}:{first_or_later}",
                    f"{type(node).__name__} at {expected} reported at {got} in {text!r}",
                    case,
                )
            )
    return violations, nodes, later_lines


# --------------------------------------------------------------------------------------
# System level
# --------------------------------------------------------------------------------------


def check_report(text: str, info: Any) -> Tuple[List[Violation], int]:
    """All the located errors of the report for ``text`` (if it is rejected)."""
    base = worker_tmp() / "c04"
    case = {"kind": "stream", "text": text, "info": info}
    try:
        model_path = stream.write_model(base, text)
        snippets = harness.synth_snippets("jsonschema", base / "snippets")
        observation, rc, stdout, stderr = stream.load_through_execute(
            model_path, snippets, base / "out"
        )
        if observation.error is None:
            return [], 0
        locations = [
            (int(m.group(1)), int(m.group(2))) for m in _LOCATION_RE.finditer(observation.error)
        ]
        if not locations:
            return [], 0
        lines = text.split("\n")
        starts = node_starts(text)
        violations = []  # type: List[Violation]
        for line, column in locations:
            if not (1 <= line <= len(lines)) or not (1 <= column <= len(lines[line - 1]) + 1):
                violations.append(
                    Violation(
                        "location-outside-text",
                        f"line {line} column {column} is outside of the text",
                        case,
                    )
                )
            elif starts is not None and column == 1 and not any(l == line for l, _ in starts):
                violations.append(
                    Violation(
                        "location-on-a-line-without-construct",
                        f"line {line} column 1: no construct starts on that line "
                        f"({lines[line - 1]!r})",
                        case,
                    )
                )
            elif starts is not None and column != 1 and (line, column) not in starts:
                violations.append(
                    Violation(
                        "location-not-at-a-node:" + ("first-line" if line == 1 else "later-line"),
                        f"line {line} column {column} is not the start of any construct; "
                        f"line is {lines[line - 1]!r}",
                        case,
                    )
                )
        return violations, len(locations)
    finally:
        shutil.rmtree(base, ignore_errors=True)


def work(shard: Any) -> Result:
    result = Result()
    if shard[0] == "unit":
        _, length, first = shard
        for text in unit_texts(length, first):
            violations, nodes, later = check_unit(text)
            result.states += 1
            result.evaluations += nodes
            result.transitions += nodes
            result.nontrivial += later
            result.outcomes.add(f"nodes={min(nodes, 30)}")
            for v in violations:
                result.add_violation(v.signature, v.message, v.case)
        if first == 2 and length == 2:
            result.samples.append({"unit_text": SHAPES[2] + "\n" + SHAPES[5] + "\n"})
        return result

    _, seed, menu, index, slices = shard
    for descriptor, text in gen_dev.mutants_of_shard(seed, menu, index, slices):
        try:
            with time_limit(60):
                violations, n_locations = check_report(
                    text, {"seed": seed, "deviation": descriptor}
                )
        except CaseTimeout:
            result.timeouts += 1
            continue
        result.states += 1
        if n_locations:
            result.evaluations += 1
            result.transitions += n_locations
            result.nontrivial += 1
            result.outcomes.add(f"locations={min(n_locations, 12)}")
        for v in violations:
            result.add_violation(v.signature, v.message, v.case)
        if len(result.samples) < 1 and n_locations >= 3 and index == 0:
            result.samples.append({"seed": seed, "deviation": descriptor, "locations": n_locations})
    return result


def replay(case: Any) -> List[Violation]:
    if case["kind"] == "unit":
        return check_unit(case["text"])[0]
    return check_report(case["text"], case.get("info"))[0]
