"""C30 — generated constants and enumerations match the meta-model."""
from __future__ import annotations

import itertools
import shutil
import struct
from typing import Any, Dict, Iterator, List, Optional, Sequence, Tuple

from verif import sdk
from verif.checks import c19
from verif.core import CaseTimeout, Result, Violation, short_exc, time_limit, worker_tmp

ID = "C30"

META = {
    "technique": (
        "exhaustive enumeration of constant declarations (value menus per primitive "
        "type, all strings up to length 2 over the literal alphabet), of constant-set "
        "families (every assignment of literals to 3 sets x every superset_of DAG) and "
        "of enumerations (literal values from the same strings) through the generated "
        "and imported Python SDK; compared with the description"
    ),
    "rule": (
        "(a) primitive constants: bool {F,T}; int {0,1,-1,42,2^31,2^53+1,2^63-1,-2^63}; "
        "float {0.0,-0.0,0.5,1.5,0.1,1e22,1e300,5e-324,-2.5,1e-7,123456789.123456789}; "
        "bytearray {empty, 1, 3, 8, 9, 17 bytes, all 256 values}; str: every string of "
        "length <= 2 over the 45-character alphabet of C19: `constants.<NAME>` must "
        "equal the value with the same type (floats by bit pattern); (b) 3 constant "
        "sets over a universe of U literals (str, int, enumeration literals): every "
        "non-empty subset per set x every DAG of superset_of declarations: accepted => "
        "the SDK set equals own literals plus the literals of all transitive subsets, "
        "as a Python set of the right element type; (c) enumerations with 6 literal "
        "values each taken from the strings of (a): members have exactly the declared "
        "values in order, <enum>_from_str(value) is the member, and every other string of "
        "the alphabet space parses to None; models the front end rejects are counted, "
        "not judged; non-trivial = accepted models"
    ),
    "bounds": {
        "quick": "strings of length <= 2 in groups of 40 constants / 6 literals; constant sets over a universe of 2 literals (3 kinds x 27 assignments x 8 DAGs)",
        "thorough": "same strings; constant sets over a universe of 3 literals (3 kinds x 343 assignments x 8 DAGs); enumerations additionally with 2 and 12 literals",
    },
    "assumptions": [
        "constant NAME = upper-case of the meta-model name, <enum>_from_str = lower-case "
        "(documented naming convention of the Python SDK); enumeration members are "
        "identified by value",
        "the text of an enumeration literal is its value (`to_str` = `.value`)",
    ],
}

GROUP = 40


def all_strings() -> List[str]:
    return list(c19.strings(2))


INTS = [0, 1, -1, 42, 2**31, 2**53 + 1, 2**63 - 1, -(2**63)]
FLOATS = [0.0, -0.0, 0.5, 1.5, 0.1, 1e22, 1e300, 5e-324, -2.5, 1e-7, 123456789.123456789]
BYTES = [b"", b"\x00", b"\xff\xfe\xfd", bytes(range(8)), bytes(range(9)), bytes(range(17)), bytes(range(256))]


def shards(tier: str) -> List[Any]:
    result = []  # type: List[Any]
    total = len(all_strings())
    groups = (total + GROUP - 1) // GROUP
    for part in range(16):
        result.append(("str", part, 16, groups))
    result.append(("prims",))
    universe = 2 if tier == "quick" else 3
    for kind in ("str", "int", "enum"):
        parts = 2 if tier == "quick" else 8
        for part in range(parts):
            result.append(("sets", kind, universe, part, parts))
    sizes = [6] if tier == "quick" else [2, 6, 12]
    for size in sizes:
        for part in range(8):
            result.append(("enums", size, part, 8))
    return result


# --------------------------------------------------------------------------------------
# Model texts
# --------------------------------------------------------------------------------------

TAIL = '''

class Something(DBC):
    """Represent something."""

    text: str

    def __init__(self, text: str) -> None:
        self.text = text


__version__ = "dummy"
__xml_namespace__ = "https://dummy.com"
'''


def constants_model(declarations: Sequence[Tuple[str, str, Any]]) -> str:
    """``declarations`` = (name, kind, value); kind in bool,int,float,str,bytearray."""
    lines = []  # type: List[str]
    for name, kind, value in declarations:
        annotation = kind
        if kind == "bytearray":
            rendered = repr(bytes(value))
        elif kind == "float":
            rendered = repr(value)
        else:
            rendered = repr(value)
        lines.append(f"{name}: {annotation} = constant_{kind}(value={rendered})")
        lines.append("")
    return "\n".join(lines) + TAIL


def same_value(kind: str, got: Any, expected: Any) -> bool:
    if kind == "float":
        return isinstance(got, float) and struct.pack("<d", got) == struct.pack("<d", expected)
    if kind == "bytearray":
        return isinstance(got, (bytes, bytearray)) and bytes(got) == bytes(expected)
    if kind == "bool":
        return isinstance(got, bool) and got == expected
    if kind == "int":
        return isinstance(got, int) and not isinstance(got, bool) and got == expected
    return isinstance(got, str) and got == expected


def check_constants(
    declarations: Sequence[Tuple[str, str, Any]], result: Result, tag: str
) -> None:
    """Generate; on rejection bisect so that one bad value does not hide the others."""
    if not declarations:
        return
    text = constants_model(declarations)
    base = worker_tmp() / "c30"
    try:
        python_sdk, stderr = sdk.python_sdk(text, base, "Something")
    except Exception as exc:
        # a crash of the generator is the business of C02; it hides nothing here when
        # the group is bisected
        python_sdk, stderr = None, f"crash: {short_exc(exc)}"
    if python_sdk is None:
        if len(declarations) == 1:
            result.states += 1
            result.extra["rejected_models"] = result.extra.get("rejected_models", 0) + 1
            result.outcomes.add(f"{tag}:rejected")
            result.extra.setdefault("rejected_examples", [])
            if len(result.extra["rejected_examples"]) < 12:
                result.extra["rejected_examples"].append(f"{declarations[0][1]}={declarations[0][2]!r:.30}: {stderr.strip().splitlines()[-1][:110] if stderr.strip() else ''}")
            shutil.rmtree(base, ignore_errors=True)
            return
        shutil.rmtree(base, ignore_errors=True)
        middle = len(declarations) // 2
        check_constants(declarations[:middle], result, tag)
        check_constants(declarations[middle:], result, tag)
        return
    try:
        result.states += 1
        result.nontrivial += 1
        for name, kind, value in declarations:
            result.evaluations += 1
            result.transitions += 1
            case = {"what": "constant", "kind": kind, "value": sdk.show(value)}
            got = getattr(python_sdk.constants, name.upper(), _MISSING)
            if got is _MISSING:
                result.add_violation(f"constant-missing:{kind}", f"constants.{name.upper()} does not exist", case)
            elif not same_value(kind, got, value):
                result.add_violation(
                    f"constant-value:{kind}:{_value_class(value)}",
                    f"constants.{name.upper()} = {got!r:.60} instead of {value!r:.60}",
                    case,
                )
            else:
                result.outcomes.add(f"{tag}:ok")
    finally:
        python_sdk.close()
        shutil.rmtree(base, ignore_errors=True)


_MISSING = object()


def _value_class(value: Any) -> str:
    if isinstance(value, str):
        return c19.classify(value, "py:str")
    if isinstance(value, float):
        return "negzero" if str(value) == "-0.0" else ("tiny" if abs(value) < 1e-300 and value != 0 else "float")
    if isinstance(value, (bytes, bytearray)):
        return f"len{min(len(value), 9)}"
    if isinstance(value, bool):
        return "bool"
    return "big" if abs(value) > 2**53 else "int"


# --------------------------------------------------------------------------------------
# Constant sets
# --------------------------------------------------------------------------------------

UNIVERSE = {
    "str": ["a", "b c", "\\d"],
    "int": [1, 2, 2**40],
    "enum": ["Red", "Green", "Blue"],
}
EDGES = [(0, 1), (0, 2), (1, 2)]  # S_j may be declared a superset of S_i for i < j


def sets_model(kind: str, contents: Sequence[Sequence[Any]], edges: Sequence[Tuple[int, int]]) -> str:
    lines = []  # type: List[str]
    if kind == "enum":
        lines.append("class Color(Enum):")
        lines.append('    """Represent a color."""')
        lines.append("")
        for literal in UNIVERSE["enum"]:
            lines.append(f"    {literal} = {literal.lower()!r}")
        lines.append("\n")
    element = {"str": "str", "int": "int", "enum": "Color"}[kind]
    for index, content in enumerate(contents):
        if kind == "enum":
            values = "[" + ", ".join(f"Color.{literal}" for literal in content) + "]"
        else:
            values = repr(list(content))
        subsets = [f"Set_{i}" for i, j in edges if j == index]
        extra = f", superset_of=[{', '.join(subsets)}]" if subsets else ""
        lines.append(f"Set_{index}: Set[{element}] = constant_set(values={values}{extra})")
        lines.append("")
    return "\n".join(lines) + TAIL


def check_sets(kind: str, universe: int, part: int, parts: int, result: Result) -> None:
    items = UNIVERSE[kind][:universe]
    subsets = [
        [item for bit, item in enumerate(items) if mask & (1 << bit)]
        for mask in range(1, 2**universe)
    ]
    number = 0
    for contents in itertools.product(subsets, repeat=3):
        for edge_mask in range(2 ** len(EDGES)):
            number += 1
            if number % parts != part:
                continue
            edges = [edge for bit, edge in enumerate(EDGES) if edge_mask & (1 << bit)]
            check_one_family(kind, contents, edges, result)


def check_one_family(kind: str, contents: Sequence[Sequence[Any]], edges: Sequence[Tuple[int, int]], result: Result) -> List[Violation]:
    case = {"what": "sets", "kind": kind, "contents": [list(c) for c in contents], "edges": [list(e) for e in edges]}
    text = sets_model(kind, contents, edges)
    base = worker_tmp() / "c30s"
    before = len(result.violations)
    result.states += 1
    result.evaluations += 1
    try:
        try:
            python_sdk, stderr = sdk.python_sdk(text, base, "Something")
        except Exception as exc:
            result.outcomes.add("sets:crash")
            return []
        # the reference: own literals plus the literals of the transitive subsets
        expected = []  # type: List[set]
        for index in range(3):
            closure = set(contents[index])
            todo = [i for i, j in edges if j == index]
            while todo:
                sub = todo.pop()
                closure |= set(contents[sub])
                todo.extend(i for i, j in edges if j == sub)
            expected.append(closure)
        listed_is_closed = all(expected[i] == set(contents[i]) for i in range(3))
        if python_sdk is None:
            result.outcomes.add("sets:rejected")
            result.extra["rejected_models"] = result.extra.get("rejected_models", 0) + 1
            # A rejected family is not judged: the property speaks about accepted
            # meta-models (how many closed families are rejected is in the evidence).
            if listed_is_closed:
                result.extra["closed_families_rejected"] = result.extra.get("closed_families_rejected", 0) + 1
            return result.violations[before:]
        try:
            result.nontrivial += 1
            result.outcomes.add("sets:closed" if listed_is_closed else "sets:accepted-not-closed")
            for index in range(3):
                result.transitions += 1
                got = getattr(python_sdk.constants, f"SET_{index}", _MISSING)
                if got is _MISSING:
                    result.add_violation(f"set-missing:{kind}", f"constants.SET_{index} does not exist", case)
                    continue
                if kind == "enum":
                    declared = {literal: literal.lower() for literal in UNIVERSE["enum"]}
                    want = {declared[literal] for literal in expected[index]}
                    ok = isinstance(got, (set, frozenset)) and all(
                        type(m).__name__ == "Color" for m in got
                    ) and {m.value for m in got} == want and len(got) == len(want)
                else:
                    want = expected[index]
                    ok = (
                        isinstance(got, (set, frozenset))
                        and got == want
                        and all(type(m) is type(next(iter(want))) for m in got)
                    )
                if not ok:
                    result.add_violation(
                        f"set-content:{kind}:{'with' if any(j == index for _, j in edges) else 'without'}-subsets",
                        f"constants.SET_{index} = {sorted(map(repr, got)) if isinstance(got, (set, frozenset)) else got!r} "
                        f"instead of {sorted(map(repr, want))} (listed {list(contents[index])}, edges {list(edges)})",
                        case,
                    )
        finally:
            python_sdk.close()
    finally:
        shutil.rmtree(base, ignore_errors=True)
    return result.violations[before:]


# --------------------------------------------------------------------------------------
# Enumerations
# --------------------------------------------------------------------------------------


def enum_model(values: Sequence[str]) -> str:
    lines = ["class Token(Enum):", '    """Represent a token."""', ""]
    for index, value in enumerate(values):
        lines.append(f"    Lit_{index} = {value!r}")
    lines.append("\n")
    lines.append('class Holder(DBC):')
    lines.append('    """Hold a token."""')
    lines.append("")
    lines.append("    token: Token")
    lines.append("")
    lines.append("    def __init__(self, token: Token) -> None:")
    lines.append("        self.token = token")
    return "\n".join(lines) + TAIL


def check_enum(values: Sequence[str], probes: Sequence[str], result: Result) -> None:
    if not values:
        return
    text = enum_model(values)
    base = worker_tmp() / "c30e"
    try:
        python_sdk, stderr = sdk.python_sdk(text, base, "Something")
    except Exception:
        python_sdk, stderr = None, "crash"
    if python_sdk is None:
        shutil.rmtree(base, ignore_errors=True)
        if len(values) == 1:
            result.states += 1
            result.extra["rejected_models"] = result.extra.get("rejected_models", 0) + 1
            result.outcomes.add("enum:rejected")
            return
        middle = len(values) // 2
        check_enum(values[:middle], probes, result)
        check_enum(values[middle:], probes, result)
        return
    try:
        result.states += 1
        result.nontrivial += 1
        result.evaluations += 1
        case = {"what": "enum", "values": [sdk.show(v) for v in values]}
        enum_class = getattr(python_sdk.types, "Token")
        members = list(enum_class)
        if [m.value for m in members] != list(values):
            result.add_violation(
                "enum-members",
                f"members have the values {[m.value for m in members]!r:.100} instead of {list(values)!r:.100}",
                case,
            )
            return
        from_str = getattr(python_sdk.stringification, "token_from_str")
        for member in members:
            result.transitions += 1
            text_of = member.value
            if from_str(text_of) is not member:
                result.add_violation(
                    f"enum-from-str-of-literal:{c19.classify(text_of, 'py:str')}",
                    f"token_from_str({text_of!r}) is {from_str(text_of)!r} instead of {member!r}",
                    case,
                )
        value_set = set(values)
        for probe in probes:
            if probe in value_set:
                continue
            result.transitions += 1
            if from_str(probe) is not None:
                result.add_violation(
                    "enum-from-str-of-other-text",
                    f"token_from_str({probe!r}) is {from_str(probe)!r} instead of None",
                    case,
                )
                break
        result.outcomes.add("enum:ok")
    finally:
        python_sdk.close()
        shutil.rmtree(base, ignore_errors=True)


# --------------------------------------------------------------------------------------
# Work
# --------------------------------------------------------------------------------------


def work(shard: Any) -> Result:
    result = Result()
    kind = shard[0]
    try:
        with time_limit(3000):
            if kind == "str":
                _, part, parts, groups = shard
                strings = all_strings()
                for group in range(groups):
                    if group % parts != part:
                        continue
                    chunk = strings[group * GROUP : (group + 1) * GROUP]
                    declarations = [(f"Cst_{group}_{i}", "str", value) for i, value in enumerate(chunk)]
                    check_constants(declarations, result, "str")
                    if len(result.samples) < 1:
                        result.samples.append({"constants": [ascii(v) for v in chunk[:5]]})
            elif kind == "prims":
                declarations = []  # type: List[Tuple[str, str, Any]]
                for i, value in enumerate([False, True]):
                    declarations.append((f"Boolean_{i}", "bool", value))
                for i, value in enumerate(INTS):
                    declarations.append((f"Integer_{i}", "int", value))
                for i, value in enumerate(FLOATS):
                    declarations.append((f"Floating_{i}", "float", value))
                for i, value in enumerate(BYTES):
                    declarations.append((f"Binary_{i}", "bytearray", value))
                check_constants(declarations, result, "prims")
            elif kind == "sets":
                _, set_kind, universe, part, parts = shard
                check_sets(set_kind, universe, part, parts, result)
            else:
                _, size, part, parts = shard
                strings = all_strings()
                probes = strings
                chunks = [strings[i : i + size] for i in range(0, len(strings), size)]
                for number, chunk in enumerate(chunks):
                    if number % parts != part:
                        continue
                    check_enum(chunk, probes, result)
    except CaseTimeout:
        result.timeouts += 1
    return result


def replay(case: Any) -> List[Violation]:
    result = Result()
    if case["what"] == "constant":
        check_constants([("Cst_0", case["kind"], sdk.unshow(case["value"]))], result, "replay")
    elif case["what"] == "sets":
        check_one_family(case["kind"], case["contents"], [tuple(e) for e in case["edges"]], result)
    else:
        values = [sdk.unshow(v) for v in case["values"]]
        check_enum(values, all_strings(), result)
    return result.violations
