"""C11 — the JSON Schema is valid and never rejects valid data."""
from __future__ import annotations

import json
import re
import shutil
from typing import Any, Dict, Iterator, List, Optional, Tuple

from verif import schema_space, sdk
from verif.core import CaseTimeout, Result, Violation, short_exc, time_limit, worker_tmp

ID = "C11"

META = {
    "technique": (
        "exhaustive enumeration of constraint menus x property types x placements "
        "(class, ancestor, split between ancestor and class, constrained primitive, "
        "chain of constrained primitives); for each model the real jsonschema target and "
        "the real Python SDK are generated; every boundary instance is serialized by the "
        "SDK and validated (Draft 2019-09, patterns under the UTF-16 convention); the "
        "verdict is compared with the evaluation of the invariants as Python"
    ),
    "rule": (
        "property p of Subject in {str, Optional[str], bytearray, Optional[bytearray], "
        "List[Item], Optional[List[Item]], List[str], Tag, Optional[Tag], List[Tag]}; "
        "length menus {>=1, <=2, >=1 and <=3, ==2, >0 and <3, reversed operands}, pattern "
        "menus {lower-case word, counted repetition, \\x escapes, astral range, dot, "
        "alternation, length+pattern}; placements {own class, abstract ancestor with "
        "modelType, split, constrained primitive, chain}; values: all strings of length "
        "<= 3 over {a,b,A,U+10000,space} and five longer ones, byte strings and lists of "
        "length 0..5; oracle: schema conforms to its meta-schema, every $ref resolves, "
        "and every instance on which all invariants hold as Python is accepted; "
        "non-trivial = valid instances validated"
    ),
    "bounds": {
        "quick": "all models (about 250), values as stated",
        "thorough": "same models, plus every model with `other` set and every pair of values for the list types",
    },
    "assumptions": [
        "validator = python-jsonschema Draft201909Validator with the `pattern` keyword "
        "re-bound to the schema's convention: pattern and instance are both taken as "
        "sequences of UTF-16 code units and matched by Python re.search",
        "minLength/maxLength count code points (RFC 8259 characters), as jsonschema does",
    ],
}

SLICES = 16


def shards(tier: str) -> List[Any]:
    return [(tier, index, SLICES) for index in range(SLICES)]


def make_validator(schema: Any) -> Any:
    import jsonschema
    from jsonschema import validators

    def pattern(validator: Any, patrn: str, instance: Any, schema_: Any) -> Iterator[Any]:
        if not validator.is_type(instance, "string"):
            return
        try:
            compiled = re.compile(patrn)
        except re.error as exc:
            yield jsonschema.ValidationError(f"pattern {patrn!r} does not compile: {exc}")
            return
        if compiled.search(schema_space.utf16_units(instance)) is None:
            yield jsonschema.ValidationError(f"{instance!r} does not match {patrn!r}")

    cls = validators.extend(jsonschema.Draft201909Validator, {"pattern": pattern})
    return cls(schema)


def unresolved_refs(schema: Any) -> List[str]:
    missing = []  # type: List[str]

    def walk(node: Any) -> None:
        if isinstance(node, dict):
            ref = node.get("$ref")
            if isinstance(ref, str):
                if not ref.startswith("#/"):
                    missing.append(ref)
                else:
                    target = schema
                    for part in ref[2:].split("/"):
                        if isinstance(target, dict) and part in target:
                            target = target[part]
                        else:
                            missing.append(ref)
                            break
            for value in node.values():
                walk(value)
        elif isinstance(node, list):
            for value in node:
                walk(value)

    walk(schema)
    return missing


class Built:
    """One generated model: schema + validator + SDK."""

    def __init__(self, spec: sdk.Spec, base: Any) -> None:
        self.spec = spec
        self.error = None  # type: Optional[str]
        self.schema = None  # type: Any
        self.sdk = None  # type: Optional[sdk.PythonSdk]
        text = sdk.render(spec)
        rc, _, stderr, out = sdk.generate(text, "jsonschema", base / "js", "Subject")
        if rc != 0:
            self.error = f"jsonschema: {stderr.strip()[-200:]}"
            return
        self.schema_text = (out / "schema.json").read_text(encoding="utf-8")
        self.schema = json.loads(self.schema_text)
        self.sdk, stderr = sdk.python_sdk(text, base / "py", "Subject")
        if self.sdk is None:
            self.error = f"python: {stderr.strip()[-200:]}"

    def close(self) -> None:
        if self.sdk is not None:
            self.sdk.close()


def model_label(info: Dict[str, Any]) -> str:
    return f"{info['annotation']}:{info['family']}:{info['placement']}"


def explore(tier: str, index: int, slices: int, mode: str) -> Result:
    """``mode``: 'sound' (C11) or 'complete' (C12)."""
    import jsonschema

    result = Result()
    base = worker_tmp() / f"c11-{mode}"
    for number, (info, spec) in enumerate(schema_space.models(tier)):
        if number % slices != index:
            continue
        result.states += 1
        try:
            with time_limit(600):
                explore_model(info, spec, base, mode, result, tier)
        except CaseTimeout:
            result.timeouts += 1
        finally:
            shutil.rmtree(base, ignore_errors=True)
    return result


def explore_model(info: Dict[str, Any], spec: sdk.Spec, base: Any, mode: str, result: Result, tier: str) -> None:
    import jsonschema

    label = model_label(info)
    case_base = {"info": info}
    try:
        built = Built(spec, base)
    except Exception as exc:
        result.extra["generator_crashes"] = result.extra.get("generator_crashes", 0) + 1
        result.outcomes.add("generator-crash")
        return
    try:
        if built.error is not None:
            result.extra["models_rejected"] = result.extra.get("models_rejected", 0) + 1
            result.extra.setdefault("rejected_examples", [])
            if len(result.extra["rejected_examples"]) < 6:
                result.extra["rejected_examples"].append(f"{label}: {built.error[-120:]}")
            result.outcomes.add("model-rejected")
            return
        assert built.sdk is not None
        if mode == "sound":
            try:
                jsonschema.Draft201909Validator.check_schema(built.schema)
            except Exception as exc:
                result.add_violation(f"schema-invalid:{info['family']}", short_exc(exc)[:200], case_base)
            missing = unresolved_refs(built.schema)
            if missing:
                result.add_violation("schema-unresolved-ref", f"unresolved: {missing[:3]}", case_base)
        validator = make_validator(built.schema)
        env = sdk.RefEnv(spec)
        first_valid = None
        for instance in schema_space.instances(spec, info["annotation"]):
            false = schema_space.false_invariants(env, spec, instance)
            if false is None:
                continue
            try:
                jsonable = built.sdk.jsonization.to_jsonable(built.sdk.build(spec, instance))
                document = json.loads(json.dumps(jsonable))
            except Exception as exc:
                result.outcomes.add("sdk-raises")
                continue
            errors = list(validator.iter_errors(document))
            accepted = len(errors) == 0
            result.evaluations += 1
            result.transitions += 1
            case = {"info": info, "instance": sdk.show(instance)}
            if not false:
                result.nontrivial += 1 if mode == "sound" else 0
                if first_valid is None and accepted:
                    first_valid = (instance, document)
                if mode == "sound" and not accepted:
                    result.add_violation(
                        f"valid-rejected:{signature_tail(info, instance)}",
                        f"{label}: p={instance['p']!r:.40} satisfies all invariants, but the schema says: {errors[0].message[:120]}",
                        case,
                    )
                else:
                    result.outcomes.add("valid-accepted")
            else:
                if mode == "complete" and len(false) == 1:
                    result.nontrivial += 1
                    if accepted and must_reject(info, instance):
                        result.add_violation(
                            f"invalid-accepted:{signature_tail(info, instance, with_placement=True)}",
                            f"{label}: p={instance['p']!r:.40} breaks {false[0][:60]}, but the schema accepts the document",
                            case,
                        )
                    else:
                        result.outcomes.add("invalid-rejected" if not accepted else "invalid-accepted-excluded")
        if mode == "complete" and first_valid is not None:
            structural(info, spec, first_valid[1], validator, result)
        if len(result.samples) < 1:
            result.samples.append({"model": label, "schema_of_p": _schema_of_p(built.schema)})
    finally:
        built.close()


def _schema_of_p(schema: Any) -> Any:
    for name in ("Subject", "Ancestor"):
        node = schema.get("definitions", {}).get(name, {})
        properties = node.get("properties") or {}
        for part in node.get("allOf", []):
            properties = {**properties, **(part.get("properties") or {})}
        if "p" in properties:
            return properties["p"]
    return None


def _contains_astral(value: Any) -> bool:
    if isinstance(value, str):
        return any(ord(c) > 0xFFFF for c in value)
    if isinstance(value, list):
        return any(_contains_astral(item) for item in value)
    return False


def signature_tail(info: Dict[str, Any], instance: Dict[str, Any], with_placement: bool = False) -> str:
    """(property kind, constraint class[, placement][, astral input])."""
    annotation = info["annotation"]
    inner = annotation[len("Optional[") : -1] if annotation.startswith("Optional[") else annotation
    kinds = sorted({kind for kind, _ in info["constraints"]})
    if kinds == ["pattern"]:
        constraint = info["family"]
    elif "pattern" in kinds:
        constraint = "len+pattern"
    else:
        constraint = "len"
    tail = f"{inner}:{constraint}"
    if with_placement:
        tail += f":{info['placement']}"
    if _contains_astral(instance["p"]):
        tail += ":astral-input"
    return tail


def must_reject(info: Dict[str, Any], instance: Dict[str, Any]) -> bool:
    """The exclusions which the property itself states (C12)."""
    value = instance["p"]
    if isinstance(value, (bytes, bytearray)):
        # byte-array lengths which the base64 text length can not express are excluded:
        # rejection is demanded only if the text length breaks the same bound as well
        text_length = schema_space.base64_text_length(len(value))
        for kind, bound in info["constraints"]:
            if kind == "min" and text_length < bound:
                return True
            if kind == "max" and text_length > bound:
                return True
            if kind == "exact" and text_length != bound and len(value) != bound:
                return text_length < bound or text_length > bound
        return False
    return True


def structural(info: Dict[str, Any], spec: sdk.Spec, document: Any, validator: Any, result: Result) -> None:
    """Missing required property, mistyped value, wrong / missing modelType (C12)."""
    label = model_label(info)
    required = [n for n, a in spec.all_props("Subject") if not a.startswith("Optional[")]
    has_model_type = spec.has_model_type("Subject")
    mutations = []  # type: List[Tuple[str, Any]]
    for key in list(document.keys()):
        if key in required or (key == "modelType" and has_model_type):
            clone = dict(document)
            del clone[key]
            mutations.append((f"missing-required:{'modelType' if key == 'modelType' else 'property'}", clone))
        value = document[key]
        others = {
            str: [1, True, [], {}], int: ["1", True, [], {}, 1.5], float: ["1", True, [], {}],
            list: ["x", 1, {}, True], dict: ["x", 1, [], True], bool: ["x", 1, [], {}],
        }.get(type(value), [])
        for other in others:
            clone = dict(document)
            clone[key] = other
            mutations.append((f"mistyped:{type(value).__name__}->{type(other).__name__}", clone))
    if has_model_type:
        for bad in ("Nope", "Sibling", "Ancestor", ""):
            clone = dict(document)
            clone["modelType"] = bad
            mutations.append((f"wrong-modelType:{bad or 'empty'}", clone))
    for kind, mutated in mutations:
        result.evaluations += 1
        result.transitions += 1
        if validator.is_valid(mutated):
            result.add_violation(
                f"structural-accepted:{kind}",
                f"{label}: {kind} is accepted: {json.dumps(mutated)[:120]}",
                {"info": info, "document": json.dumps(mutated), "kind": kind},
            )
        else:
            result.outcomes.add("structural-rejected")


def work(shard: Any) -> Result:
    tier, index, slices = shard
    return explore(tier, index, slices, "sound")


def replay_common(case: Any, mode: str) -> List[Violation]:
    info = case["info"]
    for other, spec in schema_space.models("thorough"):
        if other == info:
            result = Result()
            base = worker_tmp() / f"c11-replay-{mode}"
            try:
                explore_model(info, spec, base, mode, result, "thorough")
            finally:
                shutil.rmtree(base, ignore_errors=True)
            return result.violations
    return []


def replay(case: Any) -> List[Violation]:
    return replay_common(case, "sound")
