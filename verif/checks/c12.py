"""C12 — the JSON Schema enforces every inferred constraint."""
from __future__ import annotations

from typing import Any, List

from verif.checks import c11
from verif.core import Result, Violation

ID = "C12"

META = {
    "technique": (
        "the model / document space of C11 (constraint menus x property types x "
        "placements, exhaustive boundary values); every SDK-written document on which "
        "exactly one invariant is false as Python must fail JSON Schema validation; plus "
        "an exhaustive structural fault alphabet on a valid document (each required "
        "property removed, each value replaced by every other JSON type, modelType "
        "removed / wrong)"
    ),
    "rule": (
        "models and values as C11; an instance counts when exactly one invariant (of the "
        "class, an ancestor or the constrained primitive) evaluates to false; excluded, "
        "as the property states: byte arrays whose base64 text length does not break the "
        "bound; structural faults: delete each required key, replace each value by a "
        "string / number / boolean / array / object of another type, modelType in "
        "{absent, Nope, Sibling, Ancestor, empty}; non-trivial = single-constraint "
        "violations validated"
    ),
    "bounds": {
        "quick": "all models (about 250), values as C11",
        "thorough": "same",
    },
    "assumptions": list(c11.META["assumptions"]),
}


def shards(tier: str) -> List[Any]:
    return c11.shards(tier)


def work(shard: Any) -> Result:
    tier, index, slices = shard
    return c11.explore(tier, index, slices, "complete")


def replay(case: Any) -> List[Violation]:
    return c11.replay_common(case, "complete")
