"""C16 — the regex front end (``parse.retree``) is total and faithful."""
from __future__ import annotations

import re
import warnings
from typing import Any, Dict, Iterator, List, Optional, Set, Tuple

from verif import gen_re
from verif.core import (
    CaseTimeout,
    Result,
    Violation,
    crash_signature,
    short_exc,
    time_limit,
)

ID = "C16"

META = {
    "technique": (
        "exhaustive enumeration of pattern strings (all strings up to a length over the "
        "metacharacter alphabet, all grammar-built patterns up to a node budget, all "
        "single-character edits) run through the real parser/renderer and compared with "
        "Python re on exhaustively enumerated probe strings"
    ),
    "rule": (
        "(a) every string of length <= L over the 21-symbol alphabet "
        "`ab^$.()[]|*+?{},12-\\x`; (b) every pattern of the AST grammar (leaves a b . "
        "[ab] [^a] [a-c] \\x61 - \\. astral char raw/escaped, quantifiers ? * + {2} "
        "{1,2} {2,} {,2} {0,1} *?, groups, unions) with cost <= K, plain (and anchored "
        "for the basic grammar up to K-1); "
        "(c) every single-character deletion/insertion/replacement of the grammar "
        "patterns of cost <= K-1..2; (d) every two-character escape \\c for c in "
        "printable ASCII (and the numeric escapes starting with each hex digit) in 14 "
        "literal / set / range contexts; de-duplicated by pattern text; non-trivial = the "
        "parser accepts the pattern and it matches >= 1 and rejects >= 1 probe"
    ),
    "bounds": {
        "quick": "L=3; full grammar K=3, basic grammar K=4; edits of basic K<=2; probes: strings of length <= 3 over the pattern's characters + {c, newline}",
        "thorough": "L=4; full grammar K=4, basic grammar K=5; edits of full K<=2 and basic K<=3; probes as quick",
    },
    "assumptions": [
        "Python's re module is the reference semantics of a pattern string",
        "language equality is decided on all probe strings of length <= 3 over the "
        "pattern's own characters plus one fresh character and a newline",
    ],
}

warnings.filterwarnings("ignore")

# --------------------------------------------------------------------------------------
# Space
# --------------------------------------------------------------------------------------

FULL = (
    gen_re.LEAVES_BASIC + gen_re.LEAVES_EXTRA,
    gen_re.QUANTIFIERS_BASIC + gen_re.QUANTIFIERS_EXTRA,
)
BASIC = (gen_re.LEAVES_BASIC, gen_re.QUANTIFIERS_BASIC)

BOUNDS = {
    "quick": {"L": 3, "full_k": 3, "basic_k": 4, "edit_full_k": 0, "edit_basic_k": 2},
    "thorough": {
        "L": 4,
        "full_k": 4,
        "basic_k": 5,
        "edit_full_k": 2,
        "edit_basic_k": 3,
    },
}

N_GRAMMAR_SHARDS = 64


def shards(tier: str) -> List[Any]:
    bound = BOUNDS[tier]
    result = []  # type: List[Any]
    for length in range(0, bound["L"] + 1):
        if length <= 2:
            result.append(("raw", tier, length, ()))
        else:
            for first in gen_re.SIGMA:
                result.append(("raw", tier, length, (first,)))
    for index in range(N_GRAMMAR_SHARDS):
        result.append(("grammar", tier, index))
    for index in range(N_GRAMMAR_SHARDS):
        result.append(("edits", tier, index))
    for code in range(0x20, 0x7F):
        result.append(("escapes", tier, code))
    return result


ESCAPE_PROBE_EXTRA = ("a", "\t", "\n", "\x0b", "\x0c", "\r", "\\", " ")


def escape_patterns(code: int) -> Iterator[str]:
    """Every use of the two-character escape of ``chr(code)`` and its neighbours."""
    ch = chr(code)
    esc = "\\" + ch
    contexts = [
        "{e}", "a{e}", "{e}*", "({e})", "{e}|a", "^{e}$",
        "[{e}]", "[^{e}]", "[a{e}]", "[{e}a]", "[{e}-~]", "[\\t-{e}]", "[ -{e}]", "[{e}-{e}]",
    ]
    seen = set()  # type: Set[str]
    for context in contexts:
        pattern = context.replace("{e}", esc)
        if pattern not in seen:
            seen.add(pattern)
            yield pattern
    if ch in "0123456789abcdefABCDEF":
        # numeric escapes which start with this hexadecimal digit
        for template in ("\\x{d}b", "\\x0{d}", "\\u00{d}b", "\\u000{d}", "\\U0001f60{d}", "\\U0000000{d}"):
            for context in ("{e}", "[{e}]", "[^{e}]", "[\\x01-{e}]"):
                pattern = context.replace("{e}", template.replace("{d}", ch))
                if pattern not in seen:
                    seen.add(pattern)
                    yield pattern


def _stable_bucket(text: str, buckets: int) -> int:
    value = 0
    for ch in text:
        value = (value * 1000003 + ord(ch)) % 2147483647
    return value % buckets


def _is_raw(pattern: str, max_len: int) -> bool:
    return len(pattern) <= max_len and all(ch in gen_re.SIGMA for ch in pattern)


def grammar_patterns(tier: str) -> Iterator[str]:
    """Grammar patterns (plain and anchored) which are not in the raw space."""
    bound = BOUNDS[tier]
    seen = set()  # type: Set[str]
    full = gen_re.Grammar(*FULL).patterns_up_to(bound["full_k"])
    basic = gen_re.Grammar(*BASIC).patterns_up_to(bound["basic_k"])
    anchored_k = bound["basic_k"] - 1
    anchored = set(gen_re.Grammar(*BASIC).patterns_up_to(anchored_k))
    for body in full + basic:
        for pattern in (body, f"^{body}$") if body in anchored else (body,):
            if pattern in seen or _is_raw(pattern, bound["L"]):
                continue
            seen.add(pattern)
            yield pattern


def edit_patterns(tier: str, index: int) -> Iterator[str]:
    """Single-character edits which are in neither the raw nor the grammar space."""
    bound = BOUNDS[tier]
    bases = []  # type: List[str]
    if bound["edit_full_k"] > 0:
        bases.extend(gen_re.Grammar(*FULL).patterns_up_to(bound["edit_full_k"]))
    bases.extend(gen_re.Grammar(*BASIC).patterns_up_to(bound["edit_basic_k"]))
    bases = sorted(set(bases))
    grammar = set(grammar_patterns(tier))
    seen = set()  # type: Set[str]
    for base in bases:
        for pattern in gen_re.single_edits(base, gen_re.SIGMA):
            if _stable_bucket(pattern, N_GRAMMAR_SHARDS) != index:
                continue
            if pattern in seen or pattern in grammar or _is_raw(pattern, bound["L"]):
                continue
            seen.add(pattern)
            yield pattern


def patterns_of_shard(shard: Any) -> Iterator[str]:
    kind = shard[0]
    if kind == "raw":
        _, _, length, head = shard
        yield from gen_re.raw_strings(length, head)
    elif kind == "grammar":
        _, tier, index = shard
        for pattern in grammar_patterns(tier):
            if _stable_bucket(pattern, N_GRAMMAR_SHARDS) == index:
                yield pattern
    elif kind == "escapes":
        yield from escape_patterns(shard[2])
    else:
        _, tier, index = shard
        yield from edit_patterns(tier, index)


# --------------------------------------------------------------------------------------
# Oracle
# --------------------------------------------------------------------------------------


def _features(pattern: str) -> str:
    flags = []
    for name, chars in (
        ("curly", "{}"),
        ("set", "[]"),
        ("esc", "\\"),
        ("group", "()"),
        ("bar", "|"),
        ("anchor", "^$"),
        ("astral", None),
    ):
        if chars is None:
            if any(ord(ch) > 0xFFFF for ch in pattern):
                flags.append(name)
        elif any(ch in pattern for ch in chars):
            flags.append(name)
    return "+".join(flags) if flags else "plain"


def _re_error_class(exc: re.error) -> str:
    return re.sub(r"\s+at position \d+.*$", "", str(exc))[:60]


def _probe_alphabet(pattern: str) -> Tuple[str, ...]:
    chars = []
    for ch in pattern:
        if ch not in chars:
            chars.append(ch)
    for ch in ("c", "\n"):
        if ch not in chars:
            chars.append(ch)
    if "\\" in pattern:
        # escapes denote characters which do not occur literally in the pattern
        for ch in ("\t", "\x0b", "\x0c", "\r", " ", "\x00", "\x01", "\x0f", "\x1b", "\u000b", "\U0001f600", "\U0001f60b"):
            if ch not in chars:
                chars.append(ch)
        return tuple(chars[:22])
    return tuple(chars[:7])


def _error_class(message: str) -> str:
    message = re.sub(r"'[^']*'", "'…'", message)
    message = re.sub(r"\d+", "N", message)
    return message[:70]


def check_pattern(pattern: str) -> Tuple[List[Violation], str]:
    """Run the oracle on one pattern; return violations and the outcome class."""
    from aas_core_codegen.parse import retree

    case = {"pattern": pattern}
    violations = []  # type: List[Violation]

    try:
        regex, error = retree.parse([pattern])
    except CaseTimeout:
        raise
    except Exception as exc:
        return (
            [Violation("parse-crash:" + crash_signature(exc), short_exc(exc), case)],
            "crash",
        )

    if (regex is None) == (error is None):
        return (
            [Violation("parse-not-xor", "neither/both of (regex, error)", case)],
            "crash",
        )

    if error is not None:
        try:
            line, pointer = retree.render_pointer(error.cursor)
            if not isinstance(error.message, str) or len(error.message) == 0:
                violations.append(
                    Violation("error-without-message", "empty error message", case)
                )
        except Exception as exc:
            violations.append(
                Violation(
                    "render-pointer-crash:" + crash_signature(exc),
                    short_exc(exc),
                    case,
                )
            )
        return violations, "rejected:" + _error_class(error.message)

    assert regex is not None

    # Accepted => must be valid Python
    try:
        compiled_original = re.compile(pattern)
    except re.error as exc:
        violations.append(
            Violation(
                f"accepted-invalid-python:{_re_error_class(exc)}",
                f"{pattern!r} accepted, but Python says: {exc}",
                case,
            )
        )
        return violations, "accepted-invalid"
    except (OverflowError, RecursionError) as exc:
        return violations, "accepted-python-limit"

    try:
        rendered = "".join(retree.render(regex))  # type: ignore
    except Exception as exc:
        violations.append(
            Violation("render-crash:" + crash_signature(exc), short_exc(exc), case)
        )
        return violations, "render-crash"

    try:
        compiled_rendered = re.compile(rendered)
    except re.error as exc:
        violations.append(
            Violation(
                f"render-invalid-python:{_re_error_class(exc)}",
                f"{pattern!r} rendered as {rendered!r}: {exc}",
                case,
            )
        )
        return violations, "render-invalid"

    matched = 0
    rejected = 0
    alphabet = _probe_alphabet(pattern)
    for probe in gen_re.probes(alphabet, 3 if len(alphabet) <= 7 else 2):
        original_verdict = compiled_original.fullmatch(probe) is not None
        rendered_verdict = compiled_rendered.fullmatch(probe) is not None
        if original_verdict:
            matched += 1
        else:
            rejected += 1
        if original_verdict != rendered_verdict:
            violations.append(
                Violation(
                    f"render-language-differs:{_features(pattern)}",
                    (
                        f"{pattern!r} rendered as {rendered!r}; probe {probe!r}: "
                        f"original={original_verdict} rendered={rendered_verdict}"
                    ),
                    case,
                )
            )
            break

    # Re-parse the rendering
    try:
        regex_again, error_again = retree.parse([rendered])
    except Exception as exc:
        violations.append(
            Violation(
                "reparse-crash:" + crash_signature(exc),
                f"{pattern!r} rendered as {rendered!r}: {short_exc(exc)}",
                case,
            )
        )
        return violations, "reparse-crash"

    if error_again is not None:
        violations.append(
            Violation(
                f"reparse-rejected:{_error_class(error_again.message)}",
                f"{pattern!r} rendered as {rendered!r} is rejected: "
                f"{error_again.message}",
                case,
            )
        )
    else:
        assert regex_again is not None
        if retree.dump(regex) != retree.dump(regex_again):
            violations.append(
                Violation(
                    f"reparse-tree-differs:{_features(pattern)}",
                    f"{pattern!r} rendered as {rendered!r} parses to another tree",
                    case,
                )
            )

    outcome = "accepted"
    if matched > 0 and rejected > 0:
        outcome = "accepted-nontrivial"
    return violations, outcome


def worker_init() -> None:
    from aas_core_codegen.parse import retree  # noqa: F401  (pay the import once)

    retree.parse(["a"])


def work(shard: Any) -> Result:
    result = Result()
    for pattern in patterns_of_shard(shard):
        try:
            with time_limit(10):
                violations, outcome = check_pattern(pattern)
        except CaseTimeout:
            result.timeouts += 1
            result.extra.setdefault("timeout_cases", []).append(pattern)
            continue
        result.evaluations += 1
        result.states += 1
        result.transitions += 1
        if outcome == "accepted-nontrivial":
            result.nontrivial += 1
        result.outcomes.add(outcome)
        key = outcome.split(":")[0]
        result.extra.setdefault("outcome_counts", {})
        result.extra["outcome_counts"][key] = (
            result.extra["outcome_counts"].get(key, 0) + 1
        )
        for v in violations:
            result.add_violation(v.signature, v.message, v.case)
        if len(result.samples) < 1 and outcome == "accepted-nontrivial":
            result.samples.append({"pattern": pattern, "outcome": outcome})
    return result


def replay(case: Any) -> List[Violation]:
    return check_pattern(case["pattern"])[0]
