"""C01 — the meta-model front end never crashes."""
from __future__ import annotations

import io
import itertools
import shutil
from typing import Any, Iterator, List, Tuple

from verif import gen_dev, gen_re, harness, stream
from verif.core import (
    CaseTimeout,
    Result,
    Violation,
    crash_signature,
    short_exc,
    time_limit,
    worker_tmp,
)

ID = "C01"

META = {
    "technique": (
        "exhaustive enumeration of the single-deviation neighbourhood of seed "
        "meta-models (AST and token-level operators) plus regex strings embedded in a "
        "pattern function; real run.load_model / main.execute; oracle: no exception, "
        "table xor report"
    ),
    "rule": (
        "seeds: kitchen-sink model (every construct once) + 8 common meta-models; "
        "every (AST site x operator x menu entry): delete/duplicate/swap list elements, "
        "replace expression by an exemplar of every ast.expr class, replace statement by "
        "an exemplar of every ast.stmt class, rename identifiers (collisions, reserved "
        "words, non-ASCII, dunder), replace string/int constants from menus (regex and "
        "docstring corner cases), replace type annotations, 0..5 positional arguments "
        "for constant_*/constant_set/invariant/..., unknown keywords; token level: "
        "truncate at / drop every token, insert 8 characters at every line; plus every "
        "raw regex string of length <= L (C16 alphabet) as the pattern of a "
        "verification function; every combination of three constants (sets of str / int / "
        "enumeration literals, plain int / str constants) x every DAG of superset_of "
        "references, and references to a class / enumeration / unknown name / itself; "
        "de-duplicated by text; non-trivial = syntactically "
        "valid Python (reaches the translator)"
    ),
    "bounds": {
        "quick": "deviations d=1, reduced expression menu (13 exemplars; 5 on the kitchen sink); regex strings L<=2 plus a menu",
        "thorough": "d=1 with the full expression menu (76 exemplars) on every seed; d=2 pairs of a 40-entry operator subset on the three smallest seeds; regex strings L<=3",
    },
    "assumptions": [
        "an `uncaught exception` is any exception escaping run.load_model or "
        "main.execute (icontract ViolationError included)",
        "the report is human-readable when it is non-empty text",
    ],
}


def shards(tier: str) -> List[Any]:
    result = [("dev",) + shard for shard in stream.shards(tier)]
    for index in range(8):
        result.append(("regex", tier, index, 8))
    for index in range(4):
        result.append(("constants", tier, index, 4))
    if tier == "thorough":
        for seed in ("enum", "list_of_enums", "list_of_constrained_primitives"):
            for index in range(48):
                result.append(("pairs", seed, index, 48))
    return result


PATTERN_MODEL = '''\
@verification
def matches_something(text: str) -> bool:
    """Check that :paramref:`text` matches."""
    pattern = {pattern!r}
    return match(pattern, text) is not None


@invariant(lambda self: matches_something(self), "The value must match.")
class Something(str, DBC):
    """Represent something."""


__version__ = "dummy"
__xml_namespace__ = "https://dummy.com"
'''

REGEX_MENU = [
    "^*", "{", "[]", "a{3,1}", "[^\U0001F600]", "(", "^a^b$", "^a|b$", "^\\x2a$", "^\\$$",
    "^[a-", "^[--]$", "^[a-b-c]$", "^a*?$", "^(?:a)$", "^\\d$", "^\\", "^[\\", "^a{$",
    "^a{1,}$", "^a{,1}$", "^\\U0010FFFF$", "^\\U00110000$", "^\\uD800$", "^[\\x00-\\U0010FFFF]$",
]


CONSTANT_KINDS = {
    "str": ('Set[str]', 'constant_set(values=["a", "b"]{extra})'),
    "int": ('Set[int]', "constant_set(values=[1, 2]{extra})"),
    "enum": ('Set[Color]', "constant_set(values=[Color.Red, Color.Green]{extra})"),
    "int-constant": ("int", "constant_int(value=1)"),
    "str-constant": ("str", 'constant_str(value="a")'),
}
CONSTANTS_TAIL = """

class Color(Enum):
    \"\"\"Represent a color.\"\"\"

    Red = "a"
    Green = "b"


class Something(DBC):
    \"\"\"Represent something.\"\"\"

    text: str

    def __init__(self, text: str) -> None:
        self.text = text


__version__ = "dummy"
__xml_namespace__ = "https://dummy.com"
"""


def constant_family_models() -> Iterator[Tuple[Any, str]]:
    """
    Three constants of every combination of kinds (sets of str / int / enumeration
    literals, plain constants) with every DAG of `superset_of` references between them,
    plus references to a class, an enumeration, an unknown name and itself.
    """
    kinds = list(CONSTANT_KINDS)
    edges_all = [(0, 1), (0, 2), (1, 2)]
    for combo in itertools.product(kinds, repeat=3):
        for mask in range(1, 8):
            edges = [e for bit, e in enumerate(edges_all) if mask & (1 << bit)]
            if any(combo[j].endswith("constant") for _, j in edges):
                continue  # only sets can declare supersets
            lines = []
            for index, kind in enumerate(combo):
                annotation, template = CONSTANT_KINDS[kind]
                subsets = [f"Cst_{i}" for i, j in edges if j == index]
                extra = f", superset_of=[{', '.join(subsets)}]" if subsets else ""
                lines.append(f"Cst_{index}: {annotation} = " + template.format(extra=extra))
                lines.append("")
            yield {"constants": list(combo), "edges": edges}, "\n".join(lines) + CONSTANTS_TAIL
    for kind in ("str", "int", "enum"):
        annotation, template = CONSTANT_KINDS[kind]
        for reference in ("Something", "Color", "Unknown_name", "Cst_0", "Color.Red", '"Cst_0"', "1"):
            text = f"Cst_0: {annotation} = " + template.format(extra=f", superset_of=[{reference}]") + "\n"
            yield {"constants": [kind], "superset_of": reference}, text + CONSTANTS_TAIL


def cases_of_shard(shard: Any) -> Iterator[Tuple[Any, str]]:
    kind = shard[0]
    if kind == "constants":
        _, tier, index, slices = shard
        for number, (info, text) in enumerate(constant_family_models()):
            if number % slices == index:
                yield info, text
        return
    if kind == "dev":
        _, seed, menu, index, slices = shard
        for descriptor, text in gen_dev.mutants_of_shard(seed, menu, index, slices):
            yield {"seed": seed, "deviation": descriptor}, text
    elif kind == "regex":
        _, tier, index, slices = shard
        length = 2 if tier == "quick" else 3
        patterns = list(REGEX_MENU)
        for n in range(0, length + 1):
            patterns.extend(gen_re.raw_strings(n))
        for number, pattern in enumerate(patterns):
            if number % slices != index:
                continue
            for anchored in (pattern, f"^{pattern}$"):
                yield {"pattern": anchored}, PATTERN_MODEL.format(pattern=anchored)
    else:
        _, seed, index, slices = shard
        yield from pair_mutants(seed, index, slices)


PAIR_KINDS = {"delete", "duplicate", "swap", "rename", "arity", "annotation", "int"}


def pair_mutants(seed: str, index: int, slices: int) -> Iterator[Tuple[Any, str]]:
    """Two simultaneous deviations: the second is applied to the first's result."""
    text = gen_dev.seed_text(seed)
    firsts = [
        d
        for d in gen_dev.descriptors(text, 0)
        if d[0] in PAIR_KINDS or (d[0] == "expr" and d[2] in (0, 5, 9)) or (d[0] == "stmt" and d[2] in (0, 1, 18))
    ]
    seen = set()
    number = 0
    for first in firsts:
        middle = gen_dev.apply(text, first)
        if middle is None:
            continue
        try:
            seconds = [
                d
                for d in gen_dev.descriptors(middle, 0)
                if d[0] in ("delete", "swap", "rename") and (d[0] != "rename" or d[2] in ("class_", "é", "__init__"))
            ]
        except SyntaxError:
            continue
        for second in seconds:
            number += 1
            if number % slices != index:
                continue
            mutant = gen_dev.apply(middle, second)
            if mutant is None or mutant in seen:
                continue
            seen.add(mutant)
            yield {"seed": seed, "deviation": [first, second]}, mutant


def check_text(text: str, info: Any) -> Tuple[List[Violation], str, bool]:
    """Oracle for one text: returns (violations, outcome class, non-trivial?)."""
    base = worker_tmp() / "c01"
    case = {"text": text, "info": info}
    violations = []  # type: List[Violation]
    try:
        model_path = stream.write_model(base, text)
        snippets = harness.synth_snippets("jsonschema", base / "snippets")
        observation, rc, stdout, stderr = stream.load_through_execute(
            model_path, snippets, base / "out"
        )
        if observation.stage in ("crash", "execute-crash"):
            exc = observation.crash
            assert exc is not None
            prefix = "crash:" if observation.stage == "crash" else "execute-crash:"
            violations.append(
                Violation(prefix + crash_signature(exc), short_exc(exc)[:220], case)
            )
            return violations, "crash", observation.syntactically_valid
        if observation.stage == "not-xor":
            violations.append(Violation("not-xor", "both/neither of (table, error)", case))
            return violations, "not-xor", observation.syntactically_valid
        if observation.stage == "accepted":
            return [], "accepted", True
        if observation.stage == "?":
            # ``execute`` returned before the front end (should not happen here)
            violations.append(
                Violation("front-end-not-reached", f"rc={rc}, stderr={stderr[:80]!r}", case)
            )
            return violations, "not-reached", observation.syntactically_valid

        error = observation.error
        assert error is not None
        if len(error.strip()) == 0:
            violations.append(
                Violation("unreadable-report", f"report: {error[:80]!r}", case)
            )
        # the CLI contract for a rejected model
        if rc != 1 or len(stderr.strip()) == 0 or stderr != error:
            violations.append(
                Violation(
                    "rejected-without-status-1",
                    f"rc={rc}, stderr={stderr[:80]!r}",
                    case,
                )
            )
        outcome = f"{observation.stage}:{stream.message_template(error)}"
        return violations, outcome, observation.syntactically_valid
    finally:
        shutil.rmtree(base, ignore_errors=True)


def work(shard: Any) -> Result:
    result = Result()
    for info, text in cases_of_shard(shard):
        try:
            with time_limit(60):
                violations, outcome, nontrivial = check_text(text, info)
        except CaseTimeout:
            result.timeouts += 1
            continue
        result.evaluations += 1
        result.states += 1
        result.transitions += 1
        if nontrivial:
            result.nontrivial += 1
        result.outcomes.add(outcome)
        stage = outcome.split(":")[0]
        result.extra.setdefault("stage_counts", {})
        result.extra["stage_counts"][stage] = result.extra["stage_counts"].get(stage, 0) + 1
        for v in violations:
            result.add_violation(v.signature, v.message, v.case)
        if len(result.samples) < 1 and stage == "translate":
            result.samples.append({"info": info, "outcome": outcome})
    return result


def replay(case: Any) -> List[Violation]:
    return check_text(case["text"], case.get("info"))[0]
