"""C27 — message wrapping keeps text and layout rules (``common.wrap_text_into_lines``)."""
from __future__ import annotations

import itertools
from typing import Any, List, Tuple

from verif.core import Result, Violation, crash_signature, short_exc

ID = "C27"

TOKENS = ["a", "an", "the", "x", "word", "longerword", "", "The"]
ARTICLES = ("a", "an", "the")
WIDTHS = list(range(1, 15))
MAX_TOKENS = {"quick": 6, "thorough": 8}

META = {
    "technique": "exhaustive enumeration of token texts x widths against layout oracle",
    "rule": (
        "every text of <= N tokens over {a, an, the, x, word, longerword, '', The} "
        "joined by single spaces (the empty token yields leading, trailing and double "
        "spaces) x every width 1..14; a case is non-trivial when the "
        "result has >= 2 segments; distinct by construction (text, width)"
    ),
    "bounds": {
        "quick": "N=6 tokens, widths 1..14",
        "thorough": "N=8 tokens, widths 1..14",
    },
    "assumptions": [
        "a segment 'fits' when its length including trailing spaces is <= width (the "
        "segment is the emitted string literal); the indivisible unit is one word or "
        "one article followed by one word",
        "consecutive articles and an article followed by a double space may end a "
        "segment (the implementation treats them deliberately; outside the rule)",
    ],
}


def shards(tier: str) -> List[Any]:
    n = MAX_TOKENS[tier]
    result = []  # type: List[Any]
    # Shard by (length, first two tokens) so that shards are disjoint and balanced.
    for length in range(1, n + 1):
        if length <= 3:
            result.append((length, None))
        else:
            for head in itertools.product(range(len(TOKENS)), repeat=2):
                result.append((length, head))
    return result


def check_case(text: str, width: int) -> Tuple[List[Violation], int]:
    """Run the real function on one case; return violations and number of segments."""
    from aas_core_codegen import common

    case = {"text": text, "width": width}
    try:
        segments = common.wrap_text_into_lines(text, line_width=width)
    except Exception as exc:  # includes the function's own postcondition
        return [Violation("crash:" + crash_signature(exc), short_exc(exc), case)], 0

    violations = []  # type: List[Violation]
    if "".join(segments) != text:
        violations.append(
            Violation("text-not-preserved", f"{segments!r} != {text!r}", case)
        )

    for i, segment in enumerate(segments):
        words = [w for w in segment.split(" ") if w != ""]
        if len(segment) > width:
            indivisible = len(words) <= 1 or (
                len(words) == 2 and words[0] in ARTICLES
            )
            if not indivisible:
                violations.append(
                    Violation(
                        "segment-too-long",
                        f"segment {segment!r} exceeds width {width} in {segments!r}",
                        case,
                    )
                )
        if i + 1 < len(segments):
            # Article left hanging: segment ends with `<article> ` (exactly one
            # trailing space) and the next segment starts with a non-article word.
            nxt = segments[i + 1]
            if segment.endswith(" ") and not segment.endswith("  "):
                body = segment[:-1]
                last = body.split(" ")[-1]
                first_next = nxt.split(" ")[0]
                if (
                    last in ARTICLES
                    and first_next != ""
                    and first_next not in ARTICLES
                ):
                    violations.append(
                        Violation(
                            "article-left-hanging",
                            f"{segments!r} for width {width}",
                            case,
                        )
                    )
    return violations, len(segments)


def work(shard: Any) -> Result:
    length, head = shard
    result = Result()
    if head is None:
        combos = itertools.product(range(len(TOKENS)), repeat=length)
    else:
        combos = (
            head + tail
            for tail in itertools.product(range(len(TOKENS)), repeat=length - 2)
        )
    for combo in combos:
        base = " ".join(TOKENS[i] for i in combo)
        # NOTE: ``" ".join`` is injective on token lists (no token contains a space),
        # so every (text, width) is enumerated exactly once; leading/trailing/double
        # spaces arise from empty tokens.
        text = base
        result.states += 1
        for width in WIDTHS:
            violations, n_segments = check_case(text, width)
            result.evaluations += 1
            result.transitions += 1
            if n_segments >= 2:
                result.nontrivial += 1
            result.outcomes.add(f"segments={min(n_segments, 9)}")
            for v in violations:
                result.add_violation(v.signature, v.message, v.case)
        if len(result.samples) < 2 and length >= 3:
            result.samples.append(
                {
                    "text": base,
                    "width": 7,
                    "segments": check_case_segments(base, 7),
                }
            )
    return result


def check_case_segments(text: str, width: int) -> Any:
    from aas_core_codegen import common

    try:
        return common.wrap_text_into_lines(text, line_width=width)
    except Exception as exc:
        return short_exc(exc)


def replay(case: Any) -> List[Violation]:
    return check_case(case["text"], case["width"])[0]
