"""C09 — all runnable SDK targets agree with the Python SDK (TypeScript leg)."""
from __future__ import annotations

import json
import pathlib
import shutil
from typing import Any, Dict, Iterator, List, Optional, Sequence, Tuple

from verif import exttools, gen_inv, sdk
from verif.checks import c07, c08, c10
from verif.core import CaseTimeout, Result, Violation, short_exc, time_limit, worker_tmp

ID = "C09"

META = {
    "technique": (
        "the exhaustively enumerated spaces of C08 (accepted invariant expressions x "
        "instances) and C10 (property shapes x boundary instances x distance-1 faulty "
        "documents) are run through the generated TypeScript SDK, executed by node, and "
        "compared with the generated Python SDK on every case: verification errors, "
        "re-serialized JSON, accept / reject verdict, constants and enumeration literals"
    ),
    "rule": (
        "(a) every accepted invariant expression of the C07/C08 space which is boolean and "
        "total as Python (the others are C07's findings), 24 per class, on 62 "
        "instances: the set of (path, message) from the TypeScript verification equals "
        "the Python one; (b) the 44 property shapes of C10 in one holder and 12 single "
        "holders: every SDK-written JSON document of every instance variation and every "
        "distance-1 faulty document: fromJsonable accepts in TypeScript iff it does in "
        "Python, and the re-serialized JSON of accepted documents is equal; (c) constants "
        "(bool, int, float, str, sets of str / int / enumeration literals) and the "
        "literals of every enumeration are equal; non-trivial = cases on which the "
        "Python SDK reports an error or rejects"
    ),
    "bounds": {
        "quick": "(a) expressions of depth 1; (b) all-shapes holder + 4 single holders; (c) one constants model",
        "thorough": "(a) expressions of depth 2; (b) all-shapes holder + 12 single holders; (c) one constants model",
    },
    "assumptions": [
        "only the TypeScript leg is executed (node 22 with type stripping): the Java "
        "generator does not produce compilable code for int / float properties and the "
        "C++ SDK needs about 15 CPU-seconds per model; C++ and Java are covered for "
        "literals (C19) and syntax (C20) only — stated as not covered here",
        "integers beyond 2^53 are outside the comparison (TypeScript numbers); the "
        "Python SDK is the reference, where it raises a non-SDK exception (C10's known "
        "findings) the case counts as `rejected`",
    ],
}

REG_MJS = """
import { register } from 'node:module';
register('data:text/javascript,' + encodeURIComponent(`
export async function resolve(specifier, context, nextResolve) {
  if ((specifier.startsWith('./') || specifier.startsWith('../')) && !/\\\\.[a-z]+$/.test(specifier)) {
    return nextResolve(specifier + '.ts', context);
  }
  return nextResolve(specifier, context);
}`), import.meta.url);
"""

DRIVER_TS = """
import * as fs from "fs";
import * as AasJsonization from "./src/jsonization";
import * as AasVerification from "./src/verification";
import * as AasConstants from "./src/constants";
import * as AasTypes from "./src/types";
import * as AasStringification from "./src/stringification";

const job = JSON.parse(fs.readFileSync(process.argv[2], "utf-8"));
const out: Array<unknown> = [];
function plain(value: unknown): unknown {
  if (value instanceof Set) { return {set: Array.from(value).map(plain).sort()}; }
  if (value instanceof Uint8Array) { return {bytes: Array.from(value)}; }
  if (typeof value === "number" && !Number.isFinite(value)) { return String(value); }
  return value;
}
for (const item of job.cases) {
  const reader = (AasJsonization as any)[item.entry + "FromJsonable"];
  let record: any = {};
  try {
    const either = reader(item.doc);
    if (either.error !== null) {
      record = {ok: false};
    } else {
      const instance = either.mustValue();
      const errors: Array<[string, string]> = [];
      if (job.verify) {
        for (const error of AasVerification.verify(instance)) {
          errors.push([error.path.toString(), error.message]);
        }
      }
      record = {ok: true, errors: errors, json: AasJsonization.toJsonable(instance)};
    }
  } catch (exception) {
    record = {ok: false, raised: String(exception).slice(0, 160)};
  }
  out.push(record);
}
const constants: any = {};
for (const key of Object.keys(AasConstants)) { constants[key] = plain((AasConstants as any)[key]); }
const enums: any = {};
for (const name of job.enums) {
  const toStringFn = (AasStringification as any)["must" + name + "ToString"];
  const over = (AasTypes as any)["over" + name];
  enums[name] = Array.from(over()).map((literal: any) => [literal, toStringFn(literal)]);
}
process.stdout.write(JSON.stringify({results: out, constants: constants, enums: enums}));
"""


_DESCRIPTIONS = {}  # type: Dict[str, str]


def describe(body: str) -> str:
    """`family:operand class` of an expression of the space (as in C07's signatures)."""
    if not _DESCRIPTIONS:
        for production, tags, other in gen_inv.expressions(2):
            _DESCRIPTIONS[other] = c07.signature_of("x", production, tags).split(":", 1)[1]
    return _DESCRIPTIONS.get(body, "?")


def ts_name(name: str) -> str:
    """`Leaf_node` -> `leafNode` (function prefix), by the documented convention."""
    parts = name.split("_")
    return parts[0][:1].lower() + parts[0][1:] + "".join(p[:1].upper() + p[1:] for p in parts[1:])


def ts_class_name(name: str) -> str:
    return "".join(p[:1].upper() + p[1:] for p in name.split("_"))


def run_typescript(
    text: str, root_class: str, cases: List[Dict[str, Any]], enums: List[str], verify: bool, base: pathlib.Path
) -> Tuple[Optional[Dict[str, Any]], str]:
    node = exttools.node22()
    if node is None:
        return None, "no-node22"
    rc, _, stderr, out = sdk.generate(text, "typescript", base / "ts", root_class)
    if rc != 0:
        return None, f"typescript target failed: {stderr.strip()[-200:]}"
    (out / "reg.mjs").write_text(REG_MJS, encoding="utf-8")
    (out / "driver.ts").write_text(DRIVER_TS, encoding="utf-8")
    job = {"cases": cases, "enums": [ts_class_name(e) for e in enums], "verify": verify}
    (out / "job.json").write_text(json.dumps(job), encoding="utf-8")
    rc, stdout, stderr = exttools.run(
        [node, "--no-warnings", "--experimental-transform-types", "--import", "./reg.mjs", "driver.ts", "job.json"],
        cwd=out,
        timeout=900,
    )
    if rc != 0:
        return None, f"node failed: {stderr.strip()[-300:]}"
    try:
        return json.loads(stdout), ""
    except ValueError as exc:
        return None, f"driver output not JSON: {stdout[:200]}"


def python_reference(
    python_sdk: Any, entry: str, doc: Any, verify: bool
) -> Dict[str, Any]:
    reader = getattr(python_sdk.jsonization, f"{entry.lower()}_from_jsonable")
    try:
        instance = reader(doc)
    except Exception:
        return {"ok": False}
    errors = []  # type: List[List[str]]
    if verify:
        try:
            errors = [[str(e.path), e.cause] for e in python_sdk.verification.verify(instance)]
        except Exception:
            return {"ok": True, "verify_raised": True}
    return {"ok": True, "errors": errors, "json": python_sdk.jsonization.to_jsonable(instance)}


def has_big_int(value: Any) -> bool:
    if isinstance(value, bool):
        return False
    if isinstance(value, int):
        return abs(value) > 2**53
    if isinstance(value, float):
        return abs(value) > 2**53 and value == int(value) if abs(value) < 1e300 else False
    if isinstance(value, list):
        return any(has_big_int(v) for v in value)
    if isinstance(value, dict):
        return any(has_big_int(v) for v in value.values())
    return False


def json_equal(left: Any, right: Any) -> bool:
    if isinstance(left, float) or isinstance(right, float):
        if isinstance(left, (int, float)) and isinstance(right, (int, float)) and not isinstance(left, bool) and not isinstance(right, bool):
            return float(left) == float(right)
        return False
    if isinstance(left, dict) and isinstance(right, dict):
        return set(left) == set(right) and all(json_equal(left[k], right[k]) for k in left)
    if isinstance(left, list) and isinstance(right, list):
        return len(left) == len(right) and all(json_equal(a, b) for a, b in zip(left, right))
    return type(left) is type(right) and left == right


def compare(
    spec: sdk.Spec, text: str, root: str, python_sdk: Any, cases: List[Dict[str, Any]], verify: bool,
    info: Any, label: str, result: Result, base: pathlib.Path,
) -> None:
    output, problem = run_typescript(text, root, [{"entry": ts_name(c["entry"]), "doc": c["doc"]} for c in cases], list(spec.enums), verify, base)
    if output is None:
        if problem == "no-node22":
            if "node22" not in result.skipped_tools:
                result.skipped_tools.append("node22")
            return
        result.add_violation(f"typescript-sdk-does-not-run:{label}", problem[:300], {"info": info})
        return
    for index, (case, got) in enumerate(zip(cases, output["results"])):
        result.evaluations += 1
        result.transitions += 1
        if has_big_int(case["doc"]):
            result.outcomes.add("big-int-skipped")
            continue
        expected = python_reference(python_sdk, case["entry"], case["doc"], verify)
        replay_case = {"info": info, "entry": case["entry"], "doc": json.dumps(case["doc"]), "kind": case.get("kind", "")}
        kind = case.get("kind", "document").split(":")[0].split("=")[0]
        if expected["ok"] != got.get("ok"):
            if not expected["ok"]:
                result.nontrivial += 1
            result.add_violation(
                f"verdict-differs:{label}:{kind}:python-{'accepts' if expected['ok'] else 'rejects'}",
                f"{case.get('kind', 'document')}: Python {'accepts' if expected['ok'] else 'rejects'}, TypeScript "
                f"{'accepts' if got.get('ok') else 'rejects'} {json.dumps(case['doc'])[:140]} {got.get('raised', '')}",
                replay_case,
            )
            continue
        if not expected["ok"]:
            result.nontrivial += 1
            result.outcomes.add("both-reject")
            continue
        if expected.get("verify_raised"):
            continue
        if verify:
            if expected["errors"]:
                result.nontrivial += 1
            if sorted(map(tuple, expected["errors"])) != sorted(map(tuple, got["errors"])):
                only_python = [e for e in map(tuple, expected["errors"]) if list(e) not in got["errors"]]
                only_typescript = [e for e in map(tuple, got["errors"]) if list(e) not in expected["errors"]]
                culprit, family = "", "?"
                bodies = info.get("bodies") if isinstance(info, dict) else None
                for path, message in only_python + only_typescript:
                    import re as _re

                    match = _re.match(r"Invariant (\d+) of the pack", message)
                    if match and bodies:
                        culprit = bodies[int(match.group(1))]
                        family = describe(culprit)
                        break
                side = "only-python" if only_python and not only_typescript else ("only-typescript" if only_typescript and not only_python else "both")
                result.add_violation(
                    f"verification-differs:{label}:{family}:{side}",
                    f"`{culprit}`: only Python reports {only_python[:2]}, only TypeScript reports {only_typescript[:2]} "
                    f"for {json.dumps(case['doc'])[:160]}",
                    replay_case,
                )
                continue
        if not json_equal(expected["json"], got["json"]):
            result.add_violation(
                f"json-differs:{label}:{kind}",
                f"re-serialized JSON differs: Python {json.dumps(expected['json'])[:120]} vs TypeScript {json.dumps(got['json'])[:120]}",
                replay_case,
            )
            continue
        result.outcomes.add("agree")
    # enumeration literals
    for enum_name, literals in spec.enums.items():
        got_literals = [pair[1] for pair in output["enums"].get(ts_class_name(enum_name), [])]
        if got_literals != [value for _, value in literals]:
            result.add_violation(
                f"enumeration-differs:{label}",
                f"{enum_name}: TypeScript literals {got_literals} vs declared {[v for _, v in literals]}",
                {"info": info},
            )
    result.extra["constants_seen"] = result.extra.get("constants_seen", 0) + len(output["constants"])
    python_constants = {
        name: getattr(python_sdk.constants, name)
        for name in dir(python_sdk.constants)
        if name.isupper() and not name.startswith("_")
    }
    for name, value in python_constants.items():
        ts_value = output["constants"].get(name, "<missing>")
        if isinstance(value, (set, frozenset)):
            items = sorted((v.value if hasattr(v, "value") else v) for v in value) if not any(hasattr(v, "value") for v in value) else None
            if items is not None:
                ok = isinstance(ts_value, dict) and "set" in ts_value and sorted(ts_value["set"]) == items
            else:
                ok = isinstance(ts_value, dict) and "set" in ts_value and len(ts_value["set"]) == len(value)
        elif isinstance(value, (bytes, bytearray)):
            ok = isinstance(ts_value, dict) and ts_value.get("bytes") == list(value)
        else:
            ok = json_equal(value, ts_value)
        if not ok:
            result.add_violation(
                f"constant-differs:{label}",
                f"{name}: Python {value!r:.60} vs TypeScript {ts_value!r:.60}",
                {"info": info},
            )


# --------------------------------------------------------------------------------------
# Spaces
# --------------------------------------------------------------------------------------

CONSTANTS_VERBATIM = '''\
Magic: int = constant_int(value=42)

Proportion: float = constant_float(value=0.5)

Enabled: bool = constant_bool(value=True)

Greeting: str = constant_str(value="hello \\\\ \\" ' world")

Empty_text: str = constant_str(value="")
'''

SLICES = {"quick": 24, "thorough": 48}


def shards(tier: str) -> List[Any]:
    result = [("expressions", tier, index, SLICES[tier]) for index in range(SLICES[tier])]  # type: List[Any]
    result.append(("shapes", tier, "all", 0))
    singles = c10.QUICK_SINGLES[:4] if tier == "quick" else c10.QUICK_SINGLES
    for inner, wrap in singles:
        result.append(("shapes", tier, inner, wrap))
    return result


def explore_expressions(tier: str, index: int, slices: int, result: Result, base: pathlib.Path) -> None:
    depth = 1 if tier == "quick" else 2
    instances = gen_inv.instances()
    probe_env = gen_inv.ref_env(gen_inv.base_spec([]))
    accepted = []  # type: List[str]
    for number, (production, tags, body) in enumerate(gen_inv.expressions(depth)):
        if number % slices != index:
            continue
        result.states += 1
        verdict, _ = c07.accept(body, base / "accept")
        # Expressions which raise or which are not boolean as Python are C07's findings;
        # their truthiness differs between languages by design and is not compared.
        if verdict == "accepted" and c07.judge(probe_env, body, instances) is None and not c08.raises_somewhere(probe_env, body, instances):
            accepted.append(body)
    pack_size = 24
    for start in range(0, len(accepted), pack_size):
        pack = accepted[start : start + pack_size]
        invariants = [(body, f"Invariant {i} of the pack must hold.") for i, body in enumerate(pack)]
        spec = gen_inv.base_spec(invariants, c08.ITEM_INVARIANTS, c08.TAG_INVARIANTS)
        text = gen_inv.model_text(spec)
        python_sdk, stderr = sdk.python_sdk(text, base / "py", "Holder")
        if python_sdk is None:
            result.extra["packs_rejected"] = result.extra.get("packs_rejected", 0) + 1
            continue
        try:
            cases = []
            for instance in instances:
                doc = python_sdk.jsonization.to_jsonable(python_sdk.build(spec, instance))
                cases.append({"entry": "Holder", "doc": json.loads(json.dumps(doc)), "kind": "instance"})
            compare(spec, text, "Holder", python_sdk, cases, True, {"kind": "pack", "bodies": pack}, "expressions", result, base)
        finally:
            python_sdk.close()
            shutil.rmtree(base / "py", ignore_errors=True)
            shutil.rmtree(base / "ts", ignore_errors=True)
    if accepted and len(result.samples) < 1:
        result.samples.append({"pack": accepted[:4]})


def explore_shapes(tier: str, inner: str, wrap: int, result: Result, base: pathlib.Path) -> None:
    if inner == "all":
        spec = c10.prelude_spec(c10.all_shapes())
        info = {"kind": "shapes", "inner": "all", "wrap": 0}
    else:
        spec = c10.prelude_spec([("value", c10.WRAPS[wrap].format(t=inner))])
        info = {"kind": "shapes", "inner": inner, "wrap": wrap}
    spec.verbatim_after = CONSTANTS_VERBATIM
    text = sdk.render(spec)
    python_sdk, stderr = sdk.python_sdk(text, base / "py", "Holder")
    if python_sdk is None:
        result.extra.setdefault("harness_errors", []).append(f"shape model rejected: {stderr[:200]}")
        return
    try:
        cases = []  # type: List[Dict[str, Any]]
        base_instance = sdk.base_instance(spec, "Holder")
        for instance in sdk.variations(spec, "Holder", bound=1, with_non_xml=True):
            result.states += 1
            varied = [n for n, _ in spec.all_props("Holder") if not sdk.equal_values(instance[n], base_instance[n])]
            try:
                doc = json.loads(json.dumps(python_sdk.jsonization.to_jsonable(python_sdk.build(spec, instance))))
            except Exception:
                continue
            cases.append({"entry": "Holder", "doc": doc, "kind": "instance"})
            for kind, mutated in c10.json_mutations(doc, varied[0] if varied else None):
                if len(varied) == 0 or inner != "all" or True:
                    cases.append({"entry": "Holder", "doc": mutated, "kind": kind})
        for cls in spec.classes:
            if cls.abstract or cls.name == "Holder":
                continue
            for instance in sdk.variations(spec, cls.name, bound=1):
                doc = json.loads(json.dumps(python_sdk.jsonization.to_jsonable(python_sdk.build(spec, instance))))
                for entry in [cls.name] + list(reversed(spec.ancestors(cls.name))):
                    cases.append({"entry": entry, "doc": doc, "kind": "instance"})
        # documents must be JSON-serialisable for the driver (drop NaN-like oddities)
        usable = []
        for case in cases:
            try:
                json.dumps(case["doc"], allow_nan=False)
                usable.append(case)
            except ValueError:
                continue
        compare(spec, text, "Holder", python_sdk, usable, False, info, f"shapes", result, base)
        if len(result.samples) < 1 and usable:
            result.samples.append({"shape": info, "documents": len(usable)})
    finally:
        python_sdk.close()
        shutil.rmtree(base / "py", ignore_errors=True)
        shutil.rmtree(base / "ts", ignore_errors=True)


def work(shard: Any) -> Result:
    result = Result()
    base = worker_tmp() / "c09"
    try:
        with time_limit(3000):
            if shard[0] == "expressions":
                _, tier, index, slices = shard
                explore_expressions(tier, index, slices, result, base)
            else:
                _, tier, inner, wrap = shard
                explore_shapes(tier, inner, wrap, result, base)
    except CaseTimeout:
        result.timeouts += 1
    finally:
        shutil.rmtree(base, ignore_errors=True)
    return result


def replay(case: Any) -> List[Violation]:
    info = case["info"]
    result = Result()
    base = worker_tmp() / "c09-replay"
    try:
        if info["kind"] == "pack":
            invariants = [(body, f"Invariant {i} of the pack must hold.") for i, body in enumerate(info["bodies"])]
            spec = gen_inv.base_spec(invariants, c08.ITEM_INVARIANTS, c08.TAG_INVARIANTS)
            text = gen_inv.model_text(spec)
            verify = True
            label = "expressions"
        else:
            if info["inner"] == "all":
                spec = c10.prelude_spec(c10.all_shapes())
            else:
                spec = c10.prelude_spec([("value", c10.WRAPS[info["wrap"]].format(t=info["inner"]))])
            spec.verbatim_after = CONSTANTS_VERBATIM
            text = sdk.render(spec)
            verify = False
            label = "shapes"
        python_sdk, stderr = sdk.python_sdk(text, base / "py", "Holder")
        assert python_sdk is not None, stderr
        try:
            cases = [{"entry": case["entry"], "doc": json.loads(case["doc"]), "kind": case.get("kind", "")}] if "doc" in case else []
            compare(spec, text, "Holder", python_sdk, cases, verify, info, label, result, base)
        finally:
            python_sdk.close()
    finally:
        shutil.rmtree(base, ignore_errors=True)
    return result.violations
