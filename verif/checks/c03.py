"""C03 — exit status and error-report contract."""
from __future__ import annotations

import io
import itertools
import os
import re
import shutil
import subprocess
import sys
from typing import Any, Dict, Iterator, List, Optional, Sequence, Set, Tuple

from verif import gen_dev, gen_mm, harness, stream
from verif.core import (
    CaseTimeout,
    Result,
    Violation,
    crash_signature,
    short_exc,
    time_limit,
    worker_tmp,
)

ID = "C03"

META = {
    "technique": (
        "exhaustive enumeration of the single-deviation stream x targets through "
        "main.execute; report grammar oracle; independent walk of the front end's Error "
        "tree (nothing dropped in rendering); pairs of independent deviations (nothing "
        "dropped in collection); pre-analysis failure alphabet"
    ),
    "rule": (
        "(a) every d=1 mutant of the seeds through main.execute (rejected: once; "
        "accepted: all 8 targets): rc == 0 <=> stderr empty; rc == 0 => stdout ends with "
        "`Code generated to: <output dir>`; rc != 0 => stderr is a report `HEAD:` + "
        "`* `-bulleted entries with 2-space indented continuation lines, or a single "
        "line; (b) for rejected mutants the Error tree of the front end is walked "
        "independently: every message occurs in stderr in depth-first order at "
        "indentation 2 x depth; (c) all pairs of error-injecting deviations in "
        "different top-level definitions which fail alone in the same phase and "
        "sub-phase: the pair's report contains both leaf messages; (d) the 6 "
        "pre-analysis failures (missing / directory model, missing / file snippets, "
        "output path is a file, snippet errors); non-trivial = runs with non-zero "
        "exit; distinct by (text, target)"
    ),
    "bounds": {
        "quick": "d=1 reduced menus on the 8 common seeds; pairs on the 3 smallest seeds (one representative per (definition, sub-phase, message template))",
        "thorough": "d=1 full menus on all 9 seeds; pairs on 5 seeds; 1% of the runs replayed through the real CLI in a subprocess",
    },
    "assumptions": [
        "single-line diagnostics (pre-analysis failures, syntax errors) are accepted "
        "as degenerate reports",
        "independence of two errors is approximated by: different top-level "
        "definitions, same headline and same second-level headline when injected alone",
    ],
}

REPORT_RE = re.compile(r"\A[^\n]*[^\n:]?:\n(\* [^\n]*\n((  [^\n]*)?\n)*)+\Z")
ONE_LINE_RE = re.compile(r"\A[^\n]+\n?\Z")


def report_ok(stderr: str) -> Optional[str]:
    """Return None if ``stderr`` obeys the report grammar, else the reason."""
    if len(stderr.strip()) == 0:
        return "empty"
    if ONE_LINE_RE.match(stderr):
        return None
    lines = stderr.split("\n")
    if not stderr.endswith("\n"):
        # ``load_model`` reports end with a newline from ``write_error_report``;
        # a missing final newline only occurs for single-line diagnostics.
        return "no-final-newline"
    head = lines[0]
    if not head.endswith(":") or head.endswith("::"):
        return "headline-without-colon"
    body = lines[1:-1]
    if not body or not body[0].startswith("* "):
        return "no-bullet-after-headline"
    for line in body:
        if line.startswith("* "):
            continue
        if line == "" or line.startswith("  "):
            continue
        return "unindented-line-in-entry"
    return None


def shards(tier: str) -> List[Any]:
    result = []  # type: List[Any]
    for shard in stream.shards(tier):
        if tier == "quick" and shard[0] == "kitchen_sink":
            continue
        result.append(("dev",) + shard)
    pair_seeds = ["enum", "list_of_enums", "list_of_constrained_primitives"]
    if tier == "thorough":
        pair_seeds += ["primitive_types", "list_of_primitives"]
    for seed in pair_seeds:
        result.append(("pairs", seed))
    result.append(("pre-analysis",))
    if tier == "thorough":
        for index in range(16):
            result.append(("cli", index, 16))
    return result


# --------------------------------------------------------------------------------------
# (b) independent walk of the Error tree
# --------------------------------------------------------------------------------------


def front_end_error_tree(text: str) -> Optional[Tuple[str, Any]]:
    """Re-run the front-end stages to get (headline, Error) for a rejected text."""
    from aas_core_codegen import intermediate, parse

    atok, exc = parse.source_to_atok(source=text)
    if exc is not None or atok is None:
        return None
    if parse.check_expected_imports(atok=atok):
        return None
    table, error = parse.atok_to_symbol_table(atok=atok)
    if error is not None:
        return "Failed to construct the symbol table", error
    assert table is not None
    _, error = intermediate.translate(parsed_symbol_table=table, atok=atok)
    if error is not None:
        return (
            "Failed to translate the parsed symbol table to intermediate symbol table",
            error,
        )
    return None


def flatten(error: Any, depth: int = 0) -> Iterator[Tuple[int, str]]:
    yield depth, error.message
    for underlying in error.underlying or []:
        yield from flatten(underlying, depth + 1)


_ADDRESS_RE = re.compile(r"0x[0-9a-fA-F]+")


def dropped_messages(stderr: str, error: Any) -> List[str]:
    """Messages of the Error tree which do not occur, in order, in ``stderr``."""
    position = 0
    missing = []  # type: List[str]
    lines = stderr.split("\n")
    line_index = 0
    for depth, message in flatten(error):
        # The reference tree comes from a second parse of the same text: an object
        # address in a message differs between the two (that is C22's business).
        first_line = _ADDRESS_RE.sub("0x", message.split("\n")[0].strip())
        found = None
        for index in range(line_index, len(lines)):
            candidate = lines[index]
            stripped = candidate.lstrip(" *")
            stripped = re.sub(r"^At line \d+ and column \d+: ", "", stripped)
            if _ADDRESS_RE.sub("0x", stripped.strip()) == first_line:
                indent = len(candidate) - len(candidate.lstrip(" "))
                # the entry's first line carries the bullet; every other line of the
                # entry is indented by 2 (entry) + 2 x depth (nesting)
                ok = candidate.startswith("* ") if depth == 0 else indent == 2 + 2 * depth
                found = (index, ok)
                break
        if found is None:
            missing.append(first_line[:80])
        else:
            line_index = found[0] + 1
            if not found[1]:
                missing.append(f"<indentation of> {first_line[:60]}")
    return missing


# --------------------------------------------------------------------------------------
# Oracle for one run
# --------------------------------------------------------------------------------------


def check_run(
    rc: Optional[int], stdout: str, stderr: str, out_dir: Any, case: Any, label: str
) -> List[Violation]:
    violations = []  # type: List[Violation]
    if (rc == 0) != (stderr == ""):
        violations.append(
            Violation(
                f"status-vs-stderr:{label}",
                f"rc={rc} but stderr={stderr[:80]!r}",
                case,
            )
        )
    if rc == 0:
        expected = f"Code generated to: {out_dir}\n"
        if not stdout.endswith(expected):
            violations.append(
                Violation(
                    f"stdout-without-final-line:{label}",
                    f"stdout ends with {stdout[-80:]!r}, expected {expected!r}",
                    case,
                )
            )
    else:
        reason = report_ok(stderr)
        if reason is not None:
            violations.append(
                Violation(
                    f"report-grammar:{reason}:{label}:{stderr[:40]}".replace("\n", " "),
                    f"stderr={stderr[:160]!r}",
                    case,
                )
            )
    return violations


def check_text(text: str, seed: str, info: Any) -> Tuple[List[Violation], int, int]:
    """Returns (violations, runs, runs with non-zero exit)."""
    base = worker_tmp() / "c03"
    case = {"kind": "dev", "text": text, "seed": seed, "info": info}
    violations = []  # type: List[Violation]
    runs = 0
    failed_runs = 0
    try:
        model_path = stream.write_model(base, text)
        snippets = stream.snippets_for(seed, "jsonschema", worker_tmp() / "c03-snippets")
        out = base / "out-jsonschema"
        try:
            rc, stdout, stderr = harness.execute(model_path, "jsonschema", snippets, out)
        except Exception:
            return [], 0, 0  # crashes are the business of C01 / C02
        runs += 1
        failed_runs += 1 if rc != 0 else 0
        violations.extend(check_run(rc, stdout, stderr, out, case, "jsonschema"))

        front_end_failed = stderr.startswith(
            ("Failed to parse the meta-model", "One or more unexpected imports",
             "Failed to construct the symbol table", "Failed to translate the parsed")
        )
        if front_end_failed:
            try:
                tree = front_end_error_tree(text)
            except Exception:
                tree = None
            if tree is not None:
                headline, error = tree
                if not stderr.startswith(headline + ":\n"):
                    violations.append(
                        Violation(
                            "headline-differs",
                            f"expected headline {headline!r}, stderr={stderr[:80]!r}",
                            case,
                        )
                    )
                missing = dropped_messages(stderr, error)
                if missing:
                    violations.append(
                        Violation(
                            "error-dropped-in-rendering",
                            f"messages of the Error tree not in the report: {missing[:3]}",
                            case,
                        )
                    )
            return violations, runs, failed_runs

        # accepted by the front end: all the other targets on the loaded model
        observation = stream.load(model_path)
        if observation.stage != "accepted" or observation.result is None:
            return violations, runs, failed_runs
        symbol_table, atok = observation.result
        for target in harness.TARGETS:
            if target == "jsonschema":
                continue
            target_snippets = stream.snippets_for(seed, target, worker_tmp() / "c03-snippets")
            out = base / f"out-{target}"
            try:
                rc, stdout, stderr = harness.execute_target(
                    symbol_table, atok, model_path, target, target_snippets, out
                )
            except Exception:
                continue
            runs += 1
            failed_runs += 1 if rc != 0 else 0
            violations.extend(check_run(rc, stdout, stderr, out, case, target))
            shutil.rmtree(out, ignore_errors=True)
        return violations, runs, failed_runs
    finally:
        shutil.rmtree(base, ignore_errors=True)


# --------------------------------------------------------------------------------------
# (c) pairs of independent deviations
# --------------------------------------------------------------------------------------

NON_STRUCTURAL = {"rename", "annotation", "string", "int", "expr"}


def leaf_messages(error: Any) -> Set[str]:
    result = set()  # type: Set[str]
    for _, message in flatten(error):
        result.add(stream._TEMPLATE_RE.sub("_", message.split("\n")[0])[:90])
    return result


def second_headline(error: Any) -> str:
    if error.underlying:
        return str(error.underlying[0].message.split("\n")[0])[:60]
    return "<none>"


def deepest_messages(error: Any) -> Set[str]:
    result = set()  # type: Set[str]

    def visit(node: Any) -> None:
        if not node.underlying:
            result.add(stream._TEMPLATE_RE.sub("_", node.message.split("\n")[0])[:90])
        for underlying in node.underlying or []:
            visit(underlying)

    visit(error)
    return result


def explore_pairs(seed: str) -> Result:
    result = Result()
    text = gen_dev.seed_text(seed)
    representatives = {}  # type: Dict[Tuple[int, str, str, str], Tuple[Any, Set[str]]]
    for descriptor in gen_dev.descriptors(text, 0):
        if descriptor[0] not in NON_STRUCTURAL:
            continue
        path = descriptor[1]
        if not path or path[0][0] != "body":
            continue
        definition = path[0][1]
        mutant = gen_dev.apply(text, descriptor)
        if mutant is None:
            continue
        try:
            tree = front_end_error_tree(mutant)
        except Exception:
            continue
        if tree is None:
            continue
        headline, error = tree
        leaves = deepest_messages(error)
        if len(leaves) != 1:
            continue
        key = (definition, headline, second_headline(error), sorted(leaves)[0])
        if key not in representatives:
            representatives[key] = (descriptor, leaves)

    items = sorted(representatives.items(), key=lambda kv: repr(kv[0]))
    for (key_a, (desc_a, leaves_a)), (key_b, (desc_b, leaves_b)) in itertools.combinations(items, 2):
        if key_a[0] == key_b[0]:
            continue  # same top-level definition
        if key_a[1] != key_b[1] or key_a[2] != key_b[2]:
            continue  # another phase / sub-phase
        if leaves_a == leaves_b:
            continue
        middle = gen_dev.apply(text, desc_a)
        if middle is None:
            continue
        try:
            double = gen_dev.apply(middle, desc_b)
        except Exception:
            continue
        if double is None:
            continue
        result.states += 1
        try:
            tree = front_end_error_tree(double)
        except Exception:
            continue
        result.evaluations += 1
        result.transitions += 1
        case = {"kind": "pair", "text": double, "seed": seed, "info": [desc_a, desc_b],
                "expected": sorted(leaves_a | leaves_b)}
        if tree is None:
            result.add_violation(
                "pair-accepted", "two error-injecting deviations together are accepted", case
            )
            continue
        result.nontrivial += 1
        got = deepest_messages(tree[1])
        # a deviation may also *remove* the other one's error cause; only flag the case
        # where one of the two independent errors silently disappears while the other
        # is still reported
        missing = (leaves_a | leaves_b) - got
        if missing and (got & (leaves_a | leaves_b)):
            result.add_violation(
                f"error-dropped-in-collection:{key_a[2][:40]}",
                f"alone: {sorted(leaves_a)} and {sorted(leaves_b)}; together only {sorted(got)[:4]}",
                case,
            )
        result.outcomes.add("both-reported" if not missing else "one-missing")
    if items:
        result.samples.append({"pairs_seed": seed, "representatives": len(items)})
    return result


# --------------------------------------------------------------------------------------
# (d) pre-analysis failures
# --------------------------------------------------------------------------------------


def explore_pre_analysis() -> Result:
    result = Result()
    base = worker_tmp() / "c03-pre"
    shutil.rmtree(base, ignore_errors=True)
    base.mkdir(parents=True)
    try:
        good_model = base / "model.py"
        good_model.write_text(gen_dev.seed_text("enum"), encoding="utf-8")
        good_snippets = harness.synth_snippets("jsonschema", base / "snippets")
        bad_snippets = base / "bad-snippets"
        bad_snippets.mkdir()
        (bad_snippets / "1 invalid key.txt").write_text("x", encoding="utf-8")
        (bad_snippets / "schema_base.json").write_bytes(b"\xff\xfe")
        a_file = base / "a_file.txt"
        a_file.write_text("x", encoding="utf-8")
        cases = {
            "missing-model": (base / "nope.py", good_snippets, base / "out1"),
            "model-is-directory": (base, good_snippets, base / "out2"),
            "missing-snippets": (good_model, base / "nope", base / "out3"),
            "snippets-is-file": (good_model, a_file, base / "out4"),
            "output-is-file": (good_model, good_snippets, a_file),
            "snippet-errors": (good_model, bad_snippets, base / "out6"),
            "ok": (good_model, good_snippets, base / "out7"),
        }
        for target in harness.TARGETS:
            for label, (model, snippets, out) in cases.items():
                case = {"kind": "pre", "label": label, "target": target}
                try:
                    rc, stdout, stderr = harness.execute(model, target, snippets, out)
                except Exception as exc:
                    result.add_violation(
                        f"pre-analysis-crash:{label}:" + crash_signature(exc),
                        short_exc(exc)[:200],
                        case,
                    )
                    continue
                result.evaluations += 1
                result.transitions += 1
                result.states += 1
                if label == "ok" and target != "jsonschema":
                    # snippets of another target: an error report is expected
                    pass
                if rc != 0:
                    result.nontrivial += 1
                if label != "ok" and rc == 0:
                    result.add_violation(
                        f"pre-analysis-accepted:{label}", f"rc=0 for {label}", case
                    )
                for v in check_run(rc, stdout, stderr, out, case, f"pre:{label}"):
                    result.add_violation(v.signature, v.message, v.case)
                result.outcomes.add(f"{label}:rc={rc}")
                if out.is_dir():
                    shutil.rmtree(out, ignore_errors=True)
    finally:
        shutil.rmtree(base, ignore_errors=True)
    return result


# --------------------------------------------------------------------------------------
# CLI slice (thorough)
# --------------------------------------------------------------------------------------


def explore_cli(index: int, slices: int) -> Result:
    """Replay a deterministic 1% slice through ``python -m aas_core_codegen``."""
    result = Result()
    base = worker_tmp() / "c03-cli"
    shutil.rmtree(base, ignore_errors=True)
    base.mkdir(parents=True)
    env = dict(os.environ)
    env["TMPDIR"] = str(base / "tmp")
    (base / "tmp").mkdir()
    try:
        number = 0
        for seed in ("enum", "list_of_primitives"):
            snippets = stream.snippets_for(seed, "jsonschema", base / "snippets")
            for descriptor, text in gen_dev.mutants_of_shard(seed, 0, 0, 1):
                number += 1
                if number % 100 != 0 or (number // 100) % slices != index:
                    continue
                model_path = stream.write_model(base / "m", text)
                out = base / "out"
                shutil.rmtree(out, ignore_errors=True)
                case = {"kind": "cli", "text": text, "seed": seed, "info": descriptor}
                try:
                    in_rc, in_stdout, in_stderr = harness.execute(model_path, "jsonschema", snippets, out)
                except Exception:
                    continue
                shutil.rmtree(out, ignore_errors=True)
                proc = subprocess.run(
                    [sys.executable, "-m", "aas_core_codegen", "--model_path", str(model_path),
                     "--snippets_dir", str(snippets), "--output_dir", str(out), "--target", "jsonschema"],
                    capture_output=True, text=True, env=env, cwd=str(base), timeout=300,
                )
                result.evaluations += 1
                result.transitions += 1
                result.states += 1
                if proc.returncode != 0:
                    result.nontrivial += 1
                if (proc.returncode, proc.stdout, proc.stderr) != (in_rc, in_stdout, in_stderr):
                    result.add_violation(
                        "cli-differs-from-in-process",
                        f"cli rc={proc.returncode} vs in-process rc={in_rc}; "
                        f"stderr {proc.stderr[:60]!r} vs {in_stderr[:60]!r}",
                        case,
                    )
                result.outcomes.add(f"cli-rc={proc.returncode}")
    finally:
        shutil.rmtree(base, ignore_errors=True)
    return result


# --------------------------------------------------------------------------------------


def work(shard: Any) -> Result:
    if shard[0] == "pairs":
        return explore_pairs(shard[1])
    if shard[0] == "pre-analysis":
        return explore_pre_analysis()
    if shard[0] == "cli":
        return explore_cli(shard[1], shard[2])
    _, seed, menu, index, slices = shard
    result = Result()
    for descriptor, text in gen_dev.mutants_of_shard(seed, menu, index, slices):
        try:
            with time_limit(120):
                violations, runs, failed = check_text(
                    text, seed, {"seed": seed, "deviation": descriptor}
                )
        except CaseTimeout:
            result.timeouts += 1
            continue
        result.states += 1
        result.evaluations += runs
        result.transitions += runs
        result.nontrivial += failed
        result.outcomes.add(f"runs={runs},failed={failed}")
        for v in violations:
            result.add_violation(v.signature, v.message, v.case)
        if len(result.samples) < 1 and failed == 1 and index == 1:
            result.samples.append({"seed": seed, "deviation": descriptor, "runs": runs})
    return result


def replay(case: Any) -> List[Violation]:
    kind = case.get("kind", "dev")
    if kind == "dev":
        return check_text(case["text"], case["seed"], case.get("info"))[0]
    if kind == "pair":
        tree = front_end_error_tree(case["text"])
        if tree is None:
            return [Violation("pair-accepted", "accepted", case)]
        got = deepest_messages(tree[1])
        missing = set(case["expected"]) - got
        if missing and (got & set(case["expected"])):
            return [
                Violation(
                    f"error-dropped-in-collection:{second_headline(tree[1])[:40]}",
                    f"missing {sorted(missing)}",
                    case,
                )
            ]
        return []
    return []
