"""C10 — Python SDK serialization round-trips and rejects bad documents."""
from __future__ import annotations

import copy
import json
import re
import shutil
import traceback
import xml.etree.ElementTree as ET
from typing import Any, Dict, Iterator, List, Optional, Tuple

from verif import sdk
from verif.core import CaseTimeout, Result, Violation, short_exc, time_limit, worker_tmp

ID = "C10"

META = {
    "technique": (
        "exhaustive enumeration of property shapes x boundary instances (all "
        "single-property variations around a base instance, pairs in thorough) through "
        "the generated and imported Python SDK: JSON and XML round trip compared field by "
        "field with the description-level reference value; exhaustive distance-1 fault "
        "alphabet over every node of the JSON / XML documents: only the SDK's "
        "DeserializationException may escape"
    ),
    "rule": (
        "models: a holder class with one property per (inner type x wrapper), inner in "
        "{bool,int,float,str,bytearray,enum,constrained str / int / bytearray / float,concrete "
        "class,abstract class with modelType,concrete class with descendants}, wrapper in "
        "{T,Optional[T],List[T],Optional[List[T]]} (52 shapes, all in one holder and one "
        "per holder); instances: boundary menus per type (ints +-2^63, floats -0.0/1e300/"
        "5e-324, strings with CR, CRLF, markup, astral, `]]>`, 70 chars; bytes incl. 9 "
        "bytes; every enum literal; every concrete descendant; lists of 0,1,2,3 items); "
        "each concrete class also as document root, read through its own and every "
        "ancestor's entry point; JSON leg through the jsonable and through json text; XML "
        "leg for XML-representable text; faults: every JSON node replaced by each of "
        "null,true,0,1.5,2^63,'x','',[],{},[null], key deleted, unknown key, wrong / "
        "missing / mistyped modelType, bad base64; every XML element dropped, duplicated, "
        "renamed, re-namespaced, swapped with its sibling, given text / child / attribute, "
        "emptied, text replaced; every prefix of the document cut at a tag boundary, "
        "empty and non-XML input; histories: for 5 inner types the same names are "
        "generated with other kinds behind them (constrained str <-> int, property "
        "types, literal values) in one process, in the order flavour 0, 1, 0, and each "
        "SDK is explored as above (state leaking between generations); non-trivial = instance differs from the base instance "
        "or document is mutated"
    ),
    "bounds": {
        "quick": "all 44 shapes in one holder + 12 single-shape holders; instance variations of distance 1; faults on the base document and within the varied property",
        "thorough": "all 44 single-shape holders in addition; instance variations of distance 2 on an 8-shape holder; non-XML strings in the JSON leg",
    },
    "assumptions": [
        "`equal` is field-by-field equality by the description (floats by bit pattern, "
        "bytes exact, enum literal identity by name, list order)",
        "NaN and infinities are outside the instance menus (JSON text can not carry them)",
        "a mutated document may be accepted (a mutation can yield another valid document); "
        "only the class of the escaping exception is judged",
    ],
}

INNER = [
    "bool", "int", "float", "str", "bytearray", "Color", "Tag", "Level", "Item", "Basis", "Mid",
    "Blob", "Ratio",
]
WRAPS = ["{t}", "Optional[{t}]", "List[{t}]", "Optional[List[{t}]]"]


def prelude_spec(holder_props: List[Tuple[str, str]], flavour: int = 0) -> sdk.Spec:
    """
    ``flavour`` 1 keeps every name but changes the kind behind it (constrained str <->
    constrained int, property types, literal values): generating both flavours in one
    process exposes state which leaks from one generation into the next.
    """
    if flavour == 1:
        return sdk.Spec(
            enums={"Color": [("Red", "r"), ("Green", "g"), ("Dark_blue", "b")]},
            cprims=[
                sdk.CPrim("Tag", "int", [("self >= 0", "Tag must be non-negative.")]),
                sdk.CPrim("Level", "str", [("len(self) >= 1", "Level must not be empty.")]),
                sdk.CPrim("Blob", "float", [("self >= 0.0", "Blob must be non-negative.")]),
                sdk.CPrim("Ratio", "bytearray", [("len(self) >= 0", "Ratio must have a length.")]),
            ],
            classes=[
                sdk.Cls("Item", [("count", "str"), ("label", "Optional[int]")]),
                sdk.Cls("Basis", [("name", "int")], abstract=True, model_type=True),
                sdk.Cls("Mid", [("size", "str")], bases=["Basis"]),
                sdk.Cls("Leaf", [("flag", "float"), ("extra", "Optional[List[Item]]")], bases=["Mid"]),
                sdk.Cls("Other", [], bases=["Basis"]),
                sdk.Cls("Holder", holder_props),
            ],
        )
    return sdk.Spec(
        enums={"Color": [("Red", "red"), ("Green", "green-ish"), ("Dark_blue", "DARK BLUE")]},
        cprims=[
            sdk.CPrim("Tag", "str", [("len(self) >= 1", "Tag must not be empty.")]),
            sdk.CPrim("Level", "int", [("self >= 0", "Level must be non-negative.")]),
            sdk.CPrim("Blob", "bytearray", [("len(self) >= 0", "Blob must have a length.")]),
            sdk.CPrim("Ratio", "float", [("self >= 0.0", "Ratio must be non-negative.")]),
        ],
        classes=[
            sdk.Cls("Item", [("count", "int"), ("label", "Optional[str]")]),
            sdk.Cls("Basis", [("name", "str")], abstract=True, model_type=True),
            sdk.Cls("Mid", [("size", "int")], bases=["Basis"]),
            sdk.Cls("Leaf", [("flag", "bool"), ("extra", "Optional[List[Item]]")], bases=["Mid"]),
            sdk.Cls("Other", [], bases=["Basis"]),
            sdk.Cls("Holder", holder_props),
        ],
    )


def shape_name(i: int, w: int) -> str:
    return f"p{chr(97 + i)}{chr(97 + w)}"


def all_shapes() -> List[Tuple[str, str]]:
    return [
        (shape_name(i, w), WRAPS[w].format(t=inner))
        for i, inner in enumerate(INNER)
        for w in range(len(WRAPS))
    ]


QUICK_SINGLES = [
    ("Blob", 3), ("Ratio", 2), ("bytearray", 1), ("bytearray", 2), ("str", 0), ("str", 3), ("float", 2), ("Color", 1),
    ("Basis", 0), ("Basis", 3), ("Mid", 2), ("Item", 1), ("Tag", 2), ("int", 3),
]


def shards(tier: str) -> List[Any]:
    result = [("all", tier)]  # type: List[Any]
    for inner in ("Tag", "Level", "Item", "Basis", "Color", "Blob"):
        result.append(("sequence", tier, inner))
    if tier == "quick":
        for inner, wrap in QUICK_SINGLES:
            result.append(("single", tier, inner, wrap))
    else:
        for inner in INNER:
            for wrap in range(len(WRAPS)):
                result.append(("single", tier, inner, wrap))
        for index in range(8):
            result.append(("pairs", tier, index, 8))
    return result


# --------------------------------------------------------------------------------------
# Fault alphabets
# --------------------------------------------------------------------------------------

REPLACEMENTS = [None, True, 0, 1.5, 2**63, "x", "", [], {}, [None]]


def json_mutations(doc: Any, only_key: Optional[str]) -> Iterator[Tuple[str, Any]]:
    """Every document at distance 1 (restricted to the subtree of ``only_key`` if set)."""

    def paths(node: Any, path: Tuple[Any, ...]) -> Iterator[Tuple[Any, ...]]:
        yield path
        if isinstance(node, dict):
            for key in node:
                yield from paths(node[key], path + (key,))
        elif isinstance(node, list):
            for index in range(len(node)):
                yield from paths(node[index], path + (index,))

    def get(node: Any, path: Tuple[Any, ...]) -> Any:
        for step in path:
            node = node[step]
        return node

    def replaced(path: Tuple[Any, ...], value: Any) -> Any:
        if not path:
            return copy.deepcopy(value)
        clone = copy.deepcopy(doc)
        parent = get(clone, path[:-1])
        parent[path[-1]] = copy.deepcopy(value)
        return clone

    for path in paths(doc, ()):
        if only_key is not None and (not path or path[0] != only_key):
            continue
        node = get(doc, path)
        where = "/".join(str(s) if not isinstance(s, int) else "#" for s in path) or "<root>"
        for replacement in REPLACEMENTS:
            if type(replacement) is type(node) and replacement == node:
                continue
            yield f"replace:{type(node).__name__}->{json.dumps(replacement)}", replaced(path, replacement)
        if path and isinstance(path[-1], str):
            clone = copy.deepcopy(doc)
            del get(clone, path[:-1])[path[-1]]
            yield "delete-key", clone
        if isinstance(node, dict):
            clone = copy.deepcopy(doc)
            get(clone, path)["unknownKey"] = 1
            yield "add-unknown-key", clone
            if "modelType" in node:
                for bad in ("Nope", "", "Holder", 1, None, "basis", "Basis"):
                    clone = copy.deepcopy(doc)
                    get(clone, path)["modelType"] = bad
                    yield f"modelType={bad!r}", clone
            else:
                clone = copy.deepcopy(doc)
                get(clone, path)["modelType"] = "Leaf"
                yield "add-modelType", clone
        if isinstance(node, list) and node:
            clone = copy.deepcopy(doc)
            get(clone, path).append(copy.deepcopy(node[0]))
            yield "list-append-copy", clone
        if isinstance(node, str):
            for bad in (node + "=", node + "*", "=" + node, node[:-1] if node else "A", "AQI", "AQ==x", " " + node, node + "\n"):
                if bad != node:
                    yield "string-edit", replaced(path, bad)
        if isinstance(node, int) and not isinstance(node, bool):
            for bad in (float(node), -(2**63) - 1, str(node)):
                yield "int-edit", replaced(path, bad)
        if isinstance(node, float):
            for bad in (str(node), int(node) if abs(node) < 1e18 else 0):
                yield "float-edit", replaced(path, bad)


_NS = "https://dummy.com"


def _local(tag: str) -> str:
    return tag.split("}", 1)[1] if tag.startswith("{") else tag


def xml_mutations(text: str, only_tag: Optional[str]) -> Iterator[Tuple[str, str]]:
    """Every XML document at distance 1 (within the element ``only_tag`` if set)."""
    ET.register_namespace("", _NS)
    root = ET.fromstring(text)

    # enumerate by index path so that each mutation works on a fresh copy
    def index_paths(element: ET.Element, path: Tuple[int, ...], inside: bool) -> Iterator[Tuple[int, ...]]:
        for index, child in enumerate(list(element)):
            child_inside = inside or only_tag is None or (not path and _local(child.tag) == only_tag)
            if child_inside:
                yield path + (index,)
            yield from index_paths(child, path + (index,), child_inside)

    def resolve(tree_root: ET.Element, path: Tuple[int, ...]) -> Tuple[ET.Element, ET.Element]:
        parent = tree_root
        for index in path[:-1]:
            parent = list(parent)[index]
        return parent, list(parent)[path[-1]]

    def dump(tree_root: ET.Element) -> str:
        return ET.tostring(tree_root, encoding="unicode")

    for path in index_paths(root, (), False):
        for kind in (
            "drop", "duplicate", "rename", "renamespace", "no-namespace", "swap-next",
            "text-x", "text-empty", "text-number", "text-bool", "add-child", "add-attribute",
            "clear", "tail-text",
        ):
            clone = copy.deepcopy(root)
            parent, element = resolve(clone, path)
            position = list(parent).index(element)
            if kind == "drop":
                parent.remove(element)
            elif kind == "duplicate":
                parent.insert(position, copy.deepcopy(element))
            elif kind == "rename":
                element.tag = element.tag + "X"
            elif kind == "renamespace":
                element.tag = "{https://other.com}" + _local(element.tag)
            elif kind == "no-namespace":
                element.tag = _local(element.tag)
            elif kind == "swap-next":
                siblings = list(parent)
                if position + 1 >= len(siblings):
                    continue
                parent.remove(element)
                parent.insert(position + 1, element)
            elif kind == "text-x":
                element.text = "x y"
            elif kind == "text-empty":
                if not element.text and len(element) == 0:
                    continue
                element.text = None
                for child in list(element):
                    element.remove(child)
            elif kind == "text-number":
                element.text = "1.5e3"
            elif kind == "text-bool":
                element.text = "True"
            elif kind == "add-child":
                ET.SubElement(element, "{%s}unknown" % _NS).text = "1"
            elif kind == "add-attribute":
                element.set("attribute", "1")
            elif kind == "clear":
                if len(element) == 0:
                    continue
                for child in list(element):
                    element.remove(child)
                element.text = "text"
            elif kind == "tail-text":
                element.tail = "stray"
            yield f"xml:{kind}", dump(clone)
    if only_tag is None:
        for kind in ("root-rename", "root-renamespace", "root-attribute", "root-text"):
            clone = copy.deepcopy(root)
            if kind == "root-rename":
                clone.tag = clone.tag + "X"
            elif kind == "root-renamespace":
                clone.tag = "{https://other.com}" + _local(clone.tag)
            elif kind == "root-attribute":
                clone.set("a", "b")
            else:
                clone.text = "stray"
            yield f"xml:{kind}", dump(clone)
        # truncations at tag boundaries, and junk
        cuts = [match.end() for match in re.finditer(">", text)]
        for cut in cuts[:-1]:
            yield "xml:truncated", text[:cut]
        for junk in ("", " ", "{}", "<", "<a", "<?xml version='1.0'?>", "<a></b>", "text", "<a xmlns='https://dummy.com'/>", "\ufeff" + text, text + text, text + "x"):
            yield "xml:junk", junk


# --------------------------------------------------------------------------------------
# Oracle
# --------------------------------------------------------------------------------------


def value_class(value: Any) -> str:
    """A coarse class of a reference value (part of the signature)."""
    if value is None:
        return "None"
    if isinstance(value, bool):
        return "bool"
    if isinstance(value, int):
        return "int:big" if abs(value) > 2**53 else "int"
    if isinstance(value, float):
        if value == 0.0:
            return "float:zero" if str(value) == "0.0" else "float:negzero"
        return "float:tiny" if abs(value) < 1e-300 else ("float:huge" if abs(value) > 1e200 else "float")
    if isinstance(value, str):
        if "\r" in value:
            return "str:CR"
        if value == "":
            return "str:empty"
        if any(ord(c) < 32 and c not in "\t\n" for c in value) or any(0xFFFE <= ord(c) <= 0xFFFF for c in value):
            return "str:non-xml"
        if value != value.strip():
            return "str:whitespace"
        if any(ord(c) > 0xFFFF for c in value):
            return "str:astral"
        if any(c in "<&>\"'" for c in value):
            return "str:markup"
        return "str"
    if isinstance(value, bytes):
        return f"bytes:len{min(len(value), 9)}"
    if isinstance(value, tuple):
        return "enum"
    if isinstance(value, list):
        return "list:" + (value_class(value[0]) if value else "empty") + (f":n{min(len(value), 3)}")
    if isinstance(value, dict):
        return "class:" + value["__class__"]
    return type(value).__name__


def sdk_site(exc: BaseException, package: str) -> str:
    frames = [f for f in traceback.extract_tb(exc.__traceback__) if f"/{package}/" in f.filename]
    if not frames:
        return "<outside>"
    name = frames[-1].name
    return re.sub(r"(_for_|_from_|_as_|read_)\w+", r"\1*", name)


class Runner:
    def __init__(self, spec: sdk.Spec, python_sdk: sdk.PythonSdk, result: Result, model_info: Any, text: str) -> None:
        self.spec = spec
        self.sdk = python_sdk
        self.result = result
        self.model_info = model_info
        self.text = text

    def case(self, instance: Any, extra: Any = None) -> Any:
        return {"model": self.model_info, "instance": sdk.show(instance), "extra": extra}

    def entry_points(self, cls_name: str) -> List[str]:
        return [cls_name] + list(reversed(self.spec.ancestors(cls_name)))

    def from_jsonable(self, entry: str) -> Any:
        return getattr(self.sdk.jsonization, f"{entry.lower()}_from_jsonable")

    def from_str(self, entry: str) -> Any:
        return getattr(self.sdk.xmlization, f"{entry.lower()}_from_str")

    def round_trip(self, instance: Dict[str, Any], varied: Optional[str], label: str, with_xml: bool = True) -> Tuple[Any, Optional[str]]:
        """Check both legs; returns (jsonable, xml text) for the fault enumeration."""
        result = self.result
        spec = self.spec
        what = value_class(instance.get(varied)) if varied else "base"
        try:
            obj = self.sdk.build(spec, instance)
        except Exception as exc:
            result.add_violation(f"build:{label}:{what}", f"constructor raised {short_exc(exc)}", self.case(instance))
            return None, None
        jsonable = None
        try:
            jsonable = self.sdk.jsonization.to_jsonable(obj)
            text = json.dumps(jsonable)
            for entry in self.entry_points(instance["__class__"]):
                for leg, document in (("json", jsonable), ("json-text", json.loads(text))):
                    result.evaluations += 1
                    result.transitions += 1
                    back = self.from_jsonable(entry)(document)
                    if sdk.PythonSdk.spec_name(spec, back) != instance["__class__"]:
                        result.add_violation(
                            f"{leg}-roundtrip:{label}:wrong-class",
                            f"{entry}_from_jsonable gave a {type(back).__name__} for a {instance['__class__']}",
                            self.case(instance),
                        )
                        continue
                    value = self.sdk.unbuild(spec, back)
                    if not sdk.equal_values(value, instance):
                        result.add_violation(
                            f"{leg}-roundtrip:{diff_class(instance, value)}",
                            f"{leg}: {_diff(instance, value)}",
                            self.case(instance),
                        )
                    elif self.sdk.jsonization.to_jsonable(back) != jsonable:
                        result.add_violation(
                            f"{leg}-reserialization:{label}:{what}",
                            f"to_jsonable differs after the round trip for {varied}",
                            self.case(instance),
                        )
        except Exception as exc:
            result.add_violation(
                f"json-roundtrip-raised:{type(exc).__name__}:{_template(exc)}",
                f"JSON round trip raised {short_exc(exc)}",
                self.case(instance),
            )
        xml_text = None
        if with_xml and sdk.xml_representable(instance):
            try:
                xml_text = self.sdk.xmlization.to_str(obj)
                for entry in self.entry_points(instance["__class__"]):
                    result.evaluations += 1
                    result.transitions += 1
                    back = self.from_str(entry)(xml_text)
                    if sdk.PythonSdk.spec_name(spec, back) != instance["__class__"]:
                        result.add_violation(
                            f"xml-roundtrip:{label}:wrong-class",
                            f"{entry}_from_str gave a {type(back).__name__} for a {instance['__class__']}",
                            self.case(instance),
                        )
                        continue
                    value = self.sdk.unbuild(spec, back)
                    if not sdk.equal_values(value, instance):
                        result.add_violation(
                            f"xml-roundtrip:{diff_class(instance, value)}",
                            f"xml: {_diff(instance, value)}",
                            self.case(instance),
                        )
                # the generic entry point
                back = self.sdk.xmlization.from_str(xml_text)
                value = self.sdk.unbuild(spec, back)
                if not sdk.equal_values(value, instance):
                    result.add_violation(
                        f"xml-roundtrip-generic:{diff_class(instance, value)}",
                        f"xmlization.from_str: {_diff(instance, value)}",
                        self.case(instance),
                    )
            except Exception as exc:
                result.add_violation(
                    f"xml-roundtrip-raised:{type(exc).__name__}:{_template(exc)}",
                    f"XML round trip raised {short_exc(exc)}",
                    self.case(instance),
                )
                xml_text = None
        return jsonable, xml_text

    def faults(self, instance: Dict[str, Any], jsonable: Any, xml_text: Optional[str], varied: Optional[str], label: str) -> None:
        result = self.result
        entry = instance["__class__"]
        json_error = self.sdk.jsonization.DeserializationException
        xml_error = self.sdk.xmlization.DeserializationException
        if jsonable is not None:
            reader = self.from_jsonable(entry)
            for kind, document in json_mutations(jsonable, varied):
                result.evaluations += 1
                result.transitions += 1
                try:
                    reader(document)
                    result.outcomes.add("json-fault:accepted")
                except json_error:
                    result.outcomes.add("json-fault:rejected")
                except Exception as exc:
                    site = sdk_site(exc, self.sdk.package)
                    result.add_violation(
                        f"json-bad-document:{type(exc).__name__}@{site}:{kind.split(':')[0].split('=')[0]}",
                        f"{kind} on {label}: {short_exc(exc)[:160]}",
                        self.case(instance, {"leg": "json", "kind": kind, "document": json.dumps(document, default=repr)}),
                    )
        if xml_text is not None:
            reader = self.from_str(entry)
            for kind, document in xml_mutations(xml_text, varied):
                result.evaluations += 1
                result.transitions += 1
                try:
                    reader(document)
                    result.outcomes.add("xml-fault:accepted")
                except xml_error:
                    result.outcomes.add("xml-fault:rejected")
                except Exception as exc:
                    site = sdk_site(exc, self.sdk.package)
                    result.add_violation(
                        f"xml-bad-document:{type(exc).__name__}@{site}:{kind}",
                        f"{kind} on {label}: {short_exc(exc)[:160]}",
                        self.case(instance, {"leg": "xml", "kind": kind, "document": document}),
                    )


def _template(exc: BaseException) -> str:
    return re.sub(r"\d+|'[^']*'", "_", str(exc).split("\n")[0])[:80]


def first_diff(expected: Any, got: Any, path: str = "") -> Tuple[str, Any, Any]:
    """(path, expected leaf, observed leaf) of the first difference."""
    if isinstance(expected, dict) and isinstance(got, dict):
        for key in expected:
            if key not in got:
                return f"{path}.{key}", expected[key], "<missing>"
            if not sdk.equal_values(expected[key], got[key]):
                return first_diff(expected[key], got[key], f"{path}.{key}")
    if isinstance(expected, list) and isinstance(got, list) and len(expected) == len(got):
        for index, (a, b) in enumerate(zip(expected, got)):
            if not sdk.equal_values(a, b):
                return first_diff(a, b, f"{path}[{index}]")
    return path or "<root>", expected, got


def _diff(expected: Any, got: Any) -> str:
    path, a, b = first_diff(expected, got)
    return f"{path}: expected {a!r:.60}, got {b!r:.60}"


def diff_class(expected: Any, got: Any) -> str:
    _, a, _ = first_diff(expected, got)
    return value_class(a)


def label_of(spec: sdk.Spec, cls_name: str, prop: Optional[str]) -> str:
    if prop is None:
        return cls_name
    annotation = dict(spec.all_props(cls_name))[prop]
    return annotation


def explore_model(spec: sdk.Spec, model_info: Any, result: Result, bound: int, with_non_xml: bool) -> None:
    text = sdk.render(spec)
    base = worker_tmp() / "c10"
    python_sdk, stderr = sdk.python_sdk(text, base, "Holder")
    if python_sdk is None:
        result.extra.setdefault("harness_errors", []).append(f"model rejected: {stderr[:200]}")
        return
    try:
        runner = Runner(spec, python_sdk, result, model_info, text)
        # the holder: base instance with full fault enumeration, variations with local faults
        base_instance = sdk.base_instance(spec, "Holder")
        seen = 0
        for instance in sdk.variations(spec, "Holder", bound=bound, with_non_xml=with_non_xml):
            varied = [
                name for name, _ in spec.all_props("Holder")
                if not sdk.equal_values(instance[name], base_instance[name])
            ]
            result.states += 1
            if varied:
                result.nontrivial += 1
            label = label_of(spec, "Holder", varied[0]) if varied else "Holder"
            jsonable, xml_text = runner.round_trip(instance, varied[0] if varied else None, label)
            if len(varied) <= 1:
                runner.faults(instance, jsonable, xml_text, varied[0] if varied else None, label)
            seen += 1
            if len(result.samples) < 2 and varied and jsonable is not None:
                result.samples.append({"model": model_info, "varied": varied, "json": repr(jsonable)[:200]})
        # every other concrete class as the document root (dispatch through ancestors)
        for cls in spec.classes:
            if cls.abstract or cls.name == "Holder":
                continue
            for instance in sdk.variations(spec, cls.name, bound=1, with_non_xml=False):
                result.states += 1
                result.nontrivial += 1
                jsonable, xml_text = runner.round_trip(instance, None, f"root:{cls.name}")
                runner.faults(instance, jsonable, xml_text, None, f"root:{cls.name}")
    finally:
        python_sdk.close()
        shutil.rmtree(base, ignore_errors=True)


def spec_of_shard(shard: Any) -> Tuple[sdk.Spec, Any, int, bool]:
    kind, tier = shard[0], shard[1]
    if kind == "all":
        return prelude_spec(all_shapes()), {"kind": "all"}, 1, tier == "thorough"
    if kind == "single":
        inner, wrap = shard[2], shard[3]
        props = [("value", WRAPS[wrap].format(t=inner))]
        return prelude_spec(props), {"kind": "single", "inner": inner, "wrap": wrap}, 1, tier == "thorough"
    index = shard[2]
    picks = [("str", 0), ("bytearray", 1), ("float", 0), ("Color", 2), ("Basis", 3), ("Item", 1), ("int", 0), ("Tag", 2)]
    # pairs: rotate so that each shard's pair set differs; every shard explores all pairs
    # of its 4-property subset
    subset = [picks[(index + offset) % len(picks)] for offset in (0, 1, 3, 4)]
    props = [(f"q{chr(97 + i)}", WRAPS[w].format(t=t)) for i, (t, w) in enumerate(subset)]
    return prelude_spec(props), {"kind": "pairs", "props": props}, 2, False


def work(shard: Any) -> Result:
    result = Result()
    try:
        with time_limit(3000):
            if shard[0] == "sequence":
                # one process, three generations: flavour 0, flavour 1 (same names, other
                # kinds), flavour 0 again; each SDK must behave as if generated alone
                inner = shard[2]
                for wrap in (0, 3):
                    for flavour in (0, 1, 0):
                        props = [("value", WRAPS[wrap].format(t=inner))]
                        info = {"kind": "sequence", "inner": inner, "wrap": wrap, "flavour": flavour}
                        explore_model(prelude_spec(props, flavour), info, result, 1, False)
            else:
                spec, model_info, bound, with_non_xml = spec_of_shard(shard)
                explore_model(spec, model_info, result, bound, with_non_xml)
    except CaseTimeout:
        result.timeouts += 1
    return result


def replay(case: Any) -> List[Violation]:
    info = case["model"]
    if info["kind"] == "sequence":
        props = [("value", WRAPS[info["wrap"]].format(t=info["inner"]))]
        # replay the history which leads to the state: the other flavour first
        warm = worker_tmp() / "c10-replay-warm"
        warm_sdk, _ = sdk.python_sdk(sdk.render(prelude_spec(props, 1 - info["flavour"])), warm, "Holder")
        if warm_sdk is not None:
            warm_sdk.close()
        shutil.rmtree(warm, ignore_errors=True)
        spec = prelude_spec(props, info["flavour"])
    elif info["kind"] == "all":
        spec = prelude_spec(all_shapes())
    elif info["kind"] == "single":
        spec = prelude_spec([("value", WRAPS[info["wrap"]].format(t=info["inner"]))])
    else:
        spec = prelude_spec([tuple(p) for p in info["props"]])
    instance = sdk.unshow(case["instance"])
    result = Result()
    base = worker_tmp() / "c10-replay"
    python_sdk, stderr = sdk.python_sdk(sdk.render(spec), base, "Holder")
    assert python_sdk is not None, stderr
    try:
        runner = Runner(spec, python_sdk, result, info, "")
        extra = case.get("extra")
        if extra is None:
            base_instance = sdk.base_instance(spec, instance["__class__"])
            varied = [n for n, _ in spec.all_props(instance["__class__"]) if not sdk.equal_values(instance[n], base_instance[n])]
            label = label_of(spec, instance["__class__"], varied[0]) if varied and instance["__class__"] == "Holder" else (
                "Holder" if instance["__class__"] == "Holder" else f"root:{instance['__class__']}"
            )
            runner.round_trip(instance, varied[0] if varied and instance["__class__"] == "Holder" else None, label)
        else:
            entry = instance["__class__"]
            try:
                if extra["leg"] == "json":
                    try:
                        runner.from_jsonable(entry)(json.loads(extra["document"]))
                    except python_sdk.jsonization.DeserializationException:
                        pass
                else:
                    try:
                        runner.from_str(entry)(extra["document"])
                    except python_sdk.xmlization.DeserializationException:
                        pass
            except Exception as exc:
                site = sdk_site(exc, python_sdk.package)
                kind = extra["kind"]
                if extra["leg"] == "json":
                    sig = f"json-bad-document:{type(exc).__name__}@{site}:{kind.split(':')[0].split('=')[0]}"
                else:
                    sig = f"xml-bad-document:{type(exc).__name__}@{site}:{kind}"
                result.add_violation(sig, short_exc(exc)[:160], case)
    finally:
        python_sdk.close()
        shutil.rmtree(base, ignore_errors=True)
    return result.violations
