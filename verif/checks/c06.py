"""C06 — accepted meta-models satisfy the documented structural rules."""
from __future__ import annotations

import ast
import copy
import shutil
from typing import Any, Dict, Iterator, List, Optional, Sequence, Set, Tuple

from verif import gen_dev, harness, stream
from verif.core import (
    CaseTimeout,
    Result,
    Violation,
    crash_signature,
    short_exc,
    time_limit,
    worker_tmp,
)

ID = "C06"

META = {
    "technique": (
        "exhaustive application of rule-breaking operators at every applicable site of "
        "the seeds (must be rejected) + independent rule checker (Python ast only) over "
        "every accepted mutant of the single-deviation stream"
    ),
    "rule": (
        "rule-targeted deviations, each at every applicable site of every seed: "
        "inheritance cycle, missing base, enumeration as base, rename a "
        "type/property/method/constant/function/enum literal to an existing or reserved "
        "name, re-declare an inherited property, swap / retype / rename / drop a "
        "constructor argument, drop `= None` of an optional argument or give a "
        "non-None default, Optional[Optional[..]] / List[Optional[..]] property types, "
        "duplicate invariant description inside a class and across an inheritance "
        "edge, dangling :class: / :attr: / :constref: references, pattern without ^, "
        "without $, empty; plus: every accepted d=1 mutant is checked by an "
        "independent checker for definite violations of the same rules; non-trivial = "
        "rule-breaking mutants which are syntactically valid / accepted mutants"
    ),
    "bounds": {
        "quick": "all rule operators on all 9 seeds; accepted-stream checker on the 8 common seeds (reduced menu)",
        "thorough": "all rule operators on all 9 seeds; accepted-stream checker on all seeds (full menu)",
    },
    "assumptions": [
        "reserved-name pool is a fixed list taken from the documented reserved words "
        "(calibrated once on the pinned tree: every entry is rejected there)",
        "the independent checker flags definite violations only (constructs it does "
        "not understand are skipped)",
    ],
}

PRIMITIVES = {"bool", "int", "float", "str", "bytearray"}
IGNORED_BASES = {"DBC", "Enum"}

RESERVED_TYPE_NAMES = ["Class", "Visitor", "Path", "Error", "Transformer", "Record", "While", "Struct"]
RESERVED_MEMBER_NAMES = ["descend", "accept", "transform", "type_name", "model_type", "switch", "namespace"]


def shards(tier: str) -> List[Any]:
    result = []  # type: List[Any]
    for seed in gen_dev.seed_names(tier):
        result.append(("rules", seed))
    for shard in stream.shards(tier):
        if tier == "quick" and shard[0] == "kitchen_sink":
            continue
        result.append(("accepted",) + shard)
    return result


# --------------------------------------------------------------------------------------
# Source-level model (independent of aas_core_codegen)
# --------------------------------------------------------------------------------------


class SourceModel:
    def __init__(self, tree: ast.Module) -> None:
        self.tree = tree
        self.classes = {}  # type: Dict[str, ast.ClassDef]
        self.order = []  # type: List[str]
        self.duplicate_types = []  # type: List[str]
        for node in tree.body:
            if isinstance(node, ast.ClassDef):
                if node.name in self.classes:
                    self.duplicate_types.append(node.name)
                self.classes[node.name] = node
                self.order.append(node.name)
        self.functions = {
            node.name: node for node in tree.body if isinstance(node, ast.FunctionDef)
        }
        self.constants = {
            node.target.id: node
            for node in tree.body
            if isinstance(node, ast.AnnAssign) and isinstance(node.target, ast.Name)
        }

    def bases(self, name: str) -> List[str]:
        return [
            b.id
            for b in self.classes[name].bases
            if isinstance(b, ast.Name) and b.id not in IGNORED_BASES
        ]

    def is_enum(self, name: str) -> bool:
        return any(isinstance(b, ast.Name) and b.id == "Enum" for b in self.classes[name].bases)

    def is_constrained_primitive(self, name: str, seen: Optional[Set[str]] = None) -> bool:
        seen = seen or set()
        if name in seen or name not in self.classes:
            return False
        seen.add(name)
        for base in self.bases(name):
            if base in PRIMITIVES or self.is_constrained_primitive(base, seen):
                return True
        return False

    def ancestors(self, name: str) -> Optional[List[str]]:
        """Transitive bases among the classes; ``None`` on a cycle or missing base."""
        result = []  # type: List[str]
        stack = [(name, [name])]
        while stack:
            current, path = stack.pop()
            for base in self.bases(current):
                if base in PRIMITIVES:
                    continue
                if base not in self.classes:
                    return None
                if base in path:
                    return None
                if base not in result:
                    result.append(base)
                stack.append((base, path + [base]))
        return result

    def own_properties(self, name: str) -> List[Tuple[str, ast.expr]]:
        return [
            (s.target.id, s.annotation)
            for s in self.classes[name].body
            if isinstance(s, ast.AnnAssign) and isinstance(s.target, ast.Name) and s.value is None
        ]

    def constructor(self, name: str) -> Optional[ast.FunctionDef]:
        for s in self.classes[name].body:
            if isinstance(s, ast.FunctionDef) and s.name == "__init__":
                return s
        return None

    def invariant_descriptions(self, name: str) -> List[str]:
        result = []  # type: List[str]
        for decorator in self.classes[name].decorator_list:
            if (
                isinstance(decorator, ast.Call)
                and isinstance(decorator.func, ast.Name)
                and decorator.func.id == "invariant"
            ):
                description = None
                if len(decorator.args) >= 2:
                    description = decorator.args[1]
                for kw in decorator.keywords:
                    if kw.arg == "description":
                        description = kw.value
                if isinstance(description, ast.Constant) and isinstance(description.value, str):
                    result.append(description.value)
        return result


def annotation_problem(annotation: ast.expr) -> Optional[str]:
    """Definitely unsupported shapes: nested optionals, lists of optionals."""

    def subscript_name(node: ast.expr) -> Optional[str]:
        if isinstance(node, ast.Subscript) and isinstance(node.value, ast.Name):
            return node.value.id
        return None

    name = subscript_name(annotation)
    if name == "Optional":
        inner = annotation.slice  # type: ignore
        if subscript_name(inner) == "Optional":
            return "nested-optional"
        return annotation_problem(inner)
    if name == "List":
        inner = annotation.slice  # type: ignore
        if subscript_name(inner) == "Optional":
            return "list-of-optional"
        return annotation_problem(inner)
    return None


def definite_violations(text: str) -> List[Tuple[str, str]]:
    """The rules which the source text definitely breaks: (rule, explanation)."""
    try:
        tree = ast.parse(text)
    except (SyntaxError, ValueError, RecursionError):
        return []
    model = SourceModel(tree)
    found = []  # type: List[Tuple[str, str]]

    for name in model.duplicate_types:
        found.append(("duplicate-type-name", name))
    for name in set(model.functions) & set(model.classes):
        pass  # a function and a class may share a name only by case; not judged here

    for name in model.order:
        if model.is_enum(name):
            literals = [
                s.targets[0].id
                for s in model.classes[name].body
                if isinstance(s, ast.Assign) and len(s.targets) == 1 and isinstance(s.targets[0], ast.Name)
            ]
            if len(literals) != len(set(literals)):
                found.append(("duplicate-enum-literal", name))
            continue
        ancestors = model.ancestors(name)
        if ancestors is None:
            found.append(("cycle-or-missing-base", name))
            continue
        if any(model.is_enum(a) for a in ancestors):
            found.append(("enumeration-as-base", name))
            continue
        if model.is_constrained_primitive(name):
            continue

        own = model.own_properties(name)
        own_names = [n for n, _ in own]
        if len(own_names) != len(set(own_names)):
            found.append(("duplicate-property", name))
        inherited = []  # type: List[str]
        for ancestor in ancestors:
            inherited.extend(n for n, _ in model.own_properties(ancestor))
        redeclared = set(own_names) & set(inherited)
        if redeclared:
            found.append(("redeclared-inherited-property", f"{name}.{sorted(redeclared)[0]}"))

        for prop_name, annotation in own:
            problem = annotation_problem(annotation)
            if problem is not None:
                found.append((problem, f"{name}.{prop_name}"))

        constructor = model.constructor(name)
        all_props = set(own_names) | set(inherited)
        if constructor is not None and not redeclared:
            args = [a for a in constructor.args.args if a.arg != "self"]
            arg_names = [a.arg for a in args]
            if (
                not constructor.args.vararg
                and not constructor.args.kwarg
                and not constructor.args.kwonlyargs
                and set(arg_names) != all_props
                and len(arg_names) == len(set(arg_names))
            ):
                found.append(
                    ("constructor-arguments-differ-from-properties", f"{name}: {sorted(set(arg_names) ^ all_props)[:3]}")
                )
            defaults = [None] * (len(args) - len(constructor.args.defaults)) + list(constructor.args.defaults)
            for arg, default in zip(args, defaults):
                annotation = arg.annotation
                is_optional = (
                    isinstance(annotation, ast.Subscript)
                    and isinstance(annotation.value, ast.Name)
                    and annotation.value.id == "Optional"
                )
                if is_optional and default is not None and not (
                    isinstance(default, ast.Constant) and default.value is None
                ):
                    found.append(("optional-argument-with-non-none-default", f"{name}.{arg.arg}"))
                if is_optional and default is None:
                    found.append(("optional-argument-without-default", f"{name}.{arg.arg}"))
        elif constructor is None and own_names:
            found.append(("properties-without-constructor", name))

        descriptions = model.invariant_descriptions(name)
        inherited_descriptions = []  # type: List[str]
        for ancestor in ancestors:
            inherited_descriptions.extend(model.invariant_descriptions(ancestor))
        if len(descriptions) != len(set(descriptions)):
            found.append(("duplicate-invariant-description", name))
        elif set(descriptions) & set(inherited_descriptions):
            found.append(("duplicate-invariant-description-across-inheritance", name))

    for name, function in model.functions.items():
        pattern = simple_pattern_of(function)
        if pattern is not None:
            if pattern == "":
                found.append(("empty-pattern", name))
            elif not pattern.startswith("^"):
                found.append(("pattern-not-anchored-at-start", name))
            elif not pattern.endswith("$") or pattern.endswith("\\$"):
                found.append(("pattern-not-anchored-at-end", name))
    return found


def simple_pattern_of(function: ast.FunctionDef) -> Optional[str]:
    """The pattern of ``return match(<literal>, x) is not None`` with a literal."""
    if not any(isinstance(d, ast.Name) and d.id == "verification" for d in function.decorator_list):
        return None
    body = [s for s in function.body if not (isinstance(s, ast.Expr) and isinstance(s.value, ast.Constant))]
    variables = {}  # type: Dict[str, str]
    for statement in body[:-1]:
        if (
            isinstance(statement, ast.Assign)
            and len(statement.targets) == 1
            and isinstance(statement.targets[0], ast.Name)
            and isinstance(statement.value, ast.Constant)
            and isinstance(statement.value.value, str)
        ):
            variables[statement.targets[0].id] = statement.value.value
        else:
            return None
    if not body or not isinstance(body[-1], ast.Return):
        return None
    value = body[-1].value
    if not (
        isinstance(value, ast.Compare)
        and len(value.ops) == 1
        and isinstance(value.ops[0], ast.IsNot)
        and isinstance(value.comparators[0], ast.Constant)
        and value.comparators[0].value is None
        and isinstance(value.left, ast.Call)
        and isinstance(value.left.func, ast.Name)
        and value.left.func.id == "match"
        and len(value.left.args) == 2
    ):
        return None
    first = value.left.args[0]
    if isinstance(first, ast.Constant) and isinstance(first.value, str):
        return first.value
    if isinstance(first, ast.Name) and first.id in variables:
        return variables[first.id]
    return None


# --------------------------------------------------------------------------------------
# Rule-breaking operators
# --------------------------------------------------------------------------------------


def rule_mutants(text: str) -> Iterator[Tuple[str, str, str]]:
    """Yield (rule, site description, mutant text)."""
    tree = ast.parse(text)
    model = SourceModel(tree)

    def render(mutated: ast.Module) -> str:
        ast.fix_missing_locations(mutated)
        return ast.unparse(mutated) + "\n"

    def class_index(name: str) -> int:
        return [i for i, n in enumerate(tree.body) if isinstance(n, ast.ClassDef) and n.name == name][0]

    classes = [n for n in model.order if not model.is_enum(n)]
    enums = [n for n in model.order if model.is_enum(n)]
    plain_classes = [n for n in classes if not model.is_constrained_primitive(n)]

    for name in classes:
        index = class_index(name)
        ancestors = model.ancestors(name) or []
        # --- inheritance
        for ancestor in ancestors:
            mutated = copy.deepcopy(tree)
            target = mutated.body[class_index(ancestor)]
            target.bases.insert(0, ast.Name(id=name, ctx=ast.Load()))  # type: ignore
            yield "inheritance-cycle", f"{ancestor}({name})", render(mutated)
        mutated = copy.deepcopy(tree)
        mutated.body[index].bases.insert(0, ast.Name(id=name, ctx=ast.Load()))  # type: ignore
        yield "inheritance-cycle", f"{name}({name})", render(mutated)
        mutated = copy.deepcopy(tree)
        mutated.body[index].bases.insert(0, ast.Name(id="Missing_class", ctx=ast.Load()))  # type: ignore
        yield "missing-base", name, render(mutated)
        if name in plain_classes:
            for enum_name in enums[:1]:
                mutated = copy.deepcopy(tree)
                mutated.body[index].bases.insert(0, ast.Name(id=enum_name, ctx=ast.Load()))  # type: ignore
                yield "enumeration-as-base", f"{name}({enum_name})", render(mutated)

    # --- names of types
    for name in model.order:
        index = class_index(name)
        for other in model.order:
            if other != name:
                mutated = copy.deepcopy(tree)
                mutated.body[index].name = other  # type: ignore
                yield "duplicate-type-name", f"{name}->{other}", render(mutated)
                break
        for reserved in RESERVED_TYPE_NAMES:
            mutated = copy.deepcopy(tree)
            mutated.body[index].name = reserved  # type: ignore
            yield "reserved-type-name", f"{name}->{reserved}", render(mutated)
        for prefix in ("I_", "Must_"):
            mutated = copy.deepcopy(tree)
            mutated.body[index].name = prefix + name.lower()  # type: ignore
            yield "reserved-type-prefix", f"{name}->{prefix}", render(mutated)

    # --- members
    for name in plain_classes:
        index = class_index(name)
        cls = model.classes[name]
        own = model.own_properties(name)
        ancestors = model.ancestors(name) or []
        for position, statement in enumerate(cls.body):
            if isinstance(statement, ast.AnnAssign) and isinstance(statement.target, ast.Name) and statement.value is None:
                prop = statement.target.id
                for reserved in RESERVED_MEMBER_NAMES:
                    mutated = copy.deepcopy(tree)
                    rename_property(mutated.body[index], prop, reserved)  # type: ignore
                    yield "reserved-member-name", f"{name}.{prop}->{reserved}", render(mutated)
                mutated = copy.deepcopy(tree)
                rename_property(mutated.body[index], prop, "mutable_" + prop)  # type: ignore
                yield "reserved-member-prefix", f"{name}.{prop}", render(mutated)
                for other, _ in own:
                    if other != prop:
                        mutated = copy.deepcopy(tree)
                        mutated.body[index].body[position].target.id = other  # type: ignore
                        yield "duplicate-property", f"{name}.{prop}->{other}", render(mutated)
                        break
                for wrap in ("Optional[Optional[{}]]", "List[Optional[{}]]", "Optional[List[Optional[{}]]]"):
                    mutated = copy.deepcopy(tree)
                    inner = ast.unparse(statement.annotation)
                    if inner.startswith("Optional["):
                        inner = inner[len("Optional["):-1]
                    new_annotation = ast.parse(wrap.format(inner), mode="eval").body
                    mutated.body[index].body[position].annotation = new_annotation  # type: ignore
                    retype_constructor_argument(mutated.body[index], prop, new_annotation)  # type: ignore
                    yield "unsupported-type-shape", f"{name}.{prop}: {wrap}", render(mutated)
        # re-declare an inherited property
        for ancestor in ancestors:
            for prop, annotation in model.own_properties(ancestor):
                mutated = copy.deepcopy(tree)
                mutated.body[index].body.insert(  # type: ignore
                    1 if ast.get_docstring(cls) else 0,
                    ast.AnnAssign(target=ast.Name(id=prop, ctx=ast.Store()), annotation=copy.deepcopy(annotation), value=None, simple=1),
                )
                yield "redeclared-inherited-property", f"{name}.{prop}", render(mutated)

        # --- constructor
        constructor = model.constructor(name)
        if constructor is not None:
            ctor_position = cls.body.index(constructor)
            args = [a for a in constructor.args.args if a.arg != "self"]
            n_defaults = len(constructor.args.defaults)
            for i, arg in enumerate(args):
                real_index = i + 1  # after self
                # drop
                mutated = copy.deepcopy(tree)
                m_args = mutated.body[index].body[ctor_position].args  # type: ignore
                default_offset = len(m_args.args) - len(m_args.defaults)
                del m_args.args[real_index]
                if real_index >= default_offset:
                    del m_args.defaults[real_index - default_offset]
                yield "constructor-argument-dropped", f"{name}.{arg.arg}", render(mutated)
                # rename
                mutated = copy.deepcopy(tree)
                mutated.body[index].body[ctor_position].args.args[real_index].arg = arg.arg + "_renamed"  # type: ignore
                yield "constructor-argument-renamed", f"{name}.{arg.arg}", render(mutated)
                # retype
                mutated = copy.deepcopy(tree)
                new_type = "bytearray" if "bytearray" not in ast.unparse(arg.annotation) else "int"  # type: ignore
                if "Optional" in ast.unparse(arg.annotation):  # type: ignore
                    new_type = f"Optional[{new_type}]"
                mutated.body[index].body[ctor_position].args.args[real_index].annotation = ast.parse(new_type, mode="eval").body  # type: ignore
                yield "constructor-argument-retyped", f"{name}.{arg.arg}", render(mutated)
                # swap with next (both without default or both with)
                if i + 1 < len(args):
                    both_plain = i + 1 < len(args) - n_defaults
                    both_default = i >= len(args) - n_defaults
                    if both_plain or both_default:
                        mutated = copy.deepcopy(tree)
                        m_list = mutated.body[index].body[ctor_position].args.args  # type: ignore
                        m_list[real_index], m_list[real_index + 1] = m_list[real_index + 1], m_list[real_index]
                        yield "constructor-arguments-swapped", f"{name}.{arg.arg}", render(mutated)
                # defaults
                position_in_defaults = i - (len(args) - n_defaults)
                if position_in_defaults >= 0:
                    mutated = copy.deepcopy(tree)
                    mutated.body[index].body[ctor_position].args.defaults[position_in_defaults] = ast.Constant(value=1)  # type: ignore
                    yield "optional-argument-non-none-default", f"{name}.{arg.arg}", render(mutated)
                    if position_in_defaults == 0:
                        mutated = copy.deepcopy(tree)
                        del mutated.body[index].body[ctor_position].args.defaults[0]  # type: ignore
                        # only valid Python if no later default follows a non-default;
                        # dropping the first default keeps the order valid
                        yield "optional-argument-without-default", f"{name}.{arg.arg}", render(mutated)

        # --- invariant descriptions
        descriptions = model.invariant_descriptions(name)
        decorators = [
            (k, d)
            for k, d in enumerate(cls.decorator_list)
            if isinstance(d, ast.Call) and isinstance(d.func, ast.Name) and d.func.id == "invariant"
        ]
        if len(decorators) >= 2:
            for (k1, d1), (k2, d2) in zip(decorators, decorators[1:]):
                mutated = copy.deepcopy(tree)
                set_description(mutated.body[index].decorator_list[k2], get_description(d1))  # type: ignore
                yield "duplicate-invariant-description", f"{name}#{k2}", render(mutated)
        for ancestor in ancestors:
            ancestor_descriptions = model.invariant_descriptions(ancestor)
            if ancestor_descriptions and decorators:
                mutated = copy.deepcopy(tree)
                set_description(mutated.body[index].decorator_list[decorators[0][0]], ancestor_descriptions[0])  # type: ignore
                yield "duplicate-invariant-description-across-inheritance", f"{name}<-{ancestor}", render(mutated)

    # --- dangling references in docstrings
    for path, parent, child, field, idx in gen_dev._walk(tree, ()):
        if (
            isinstance(child, ast.Expr)
            and isinstance(child.value, ast.Constant)
            and isinstance(child.value.value, str)
            and idx is not None
        ):
            for role in (":class:`Missing_class`", ":attr:`missing_attribute`", ":constref:`Missing_constant`", ":attr:`Missing_class.x`"):
                mutated = copy.deepcopy(tree)
                m_parent, m_field, m_index = gen_dev._get(mutated, path)
                node = getattr(m_parent, m_field)[m_index]
                node.value = ast.Constant(value=child.value.value.rstrip() + f"\n\nSee {role}.\n")
                yield "dangling-reference", f"{role} at {path[:2]}", render(mutated)

    # --- patterns
    for name, function in model.functions.items():
        pattern = simple_pattern_of(function)
        if pattern is None:
            continue
        index = tree.body.index(function)
        for rule, new in (
            ("pattern-without-start-anchor", pattern.lstrip("^")),
            ("pattern-without-end-anchor", pattern[:-1] if pattern.endswith("$") else pattern),
            ("empty-pattern", ""),
            ("pattern-with-top-level-union", pattern + "|" + pattern),
        ):
            mutated = copy.deepcopy(tree)
            for node in ast.walk(mutated.body[index]):
                if isinstance(node, ast.Constant) and node.value == pattern:
                    node.value = new
            yield rule, name, render(mutated)
    # f-string patterns (kitchen sink): strip the anchors inside the JoinedStr
    for name, function in model.functions.items():
        for node_path, parent, child, field, idx in gen_dev._walk(function, ()):
            if isinstance(child, ast.JoinedStr) and child.values:
                index = tree.body.index(function)
                first, last = child.values[0], child.values[-1]
                if isinstance(first, ast.Constant) and isinstance(first.value, str) and first.value.startswith("^"):
                    mutated = copy.deepcopy(tree)
                    m_parent, m_field, m_index = gen_dev._get(mutated.body[index], node_path)
                    joined = getattr(m_parent, m_field) if m_index is None else getattr(m_parent, m_field)[m_index]
                    joined.values[0].value = joined.values[0].value[1:]
                    yield "pattern-without-start-anchor", f"{name} (f-string)", render(mutated)
                if isinstance(last, ast.Constant) and isinstance(last.value, str) and last.value.endswith("$"):
                    mutated = copy.deepcopy(tree)
                    m_parent, m_field, m_index = gen_dev._get(mutated.body[index], node_path)
                    joined = getattr(m_parent, m_field) if m_index is None else getattr(m_parent, m_field)[m_index]
                    joined.values[-1].value = joined.values[-1].value[:-1]
                    yield "pattern-without-end-anchor", f"{name} (f-string)", render(mutated)

    # --- constants and functions
    constant_names = list(model.constants)
    for name in constant_names:
        index = tree.body.index(model.constants[name])
        for other in constant_names:
            if other != name:
                mutated = copy.deepcopy(tree)
                mutated.body[index].target.id = other  # type: ignore
                yield "duplicate-constant-name", f"{name}->{other}", render(mutated)
                break
        for reserved in RESERVED_MEMBER_NAMES[:3]:
            mutated = copy.deepcopy(tree)
            mutated.body[index].target.id = reserved  # type: ignore
            yield "reserved-constant-name", f"{name}->{reserved}", render(mutated)
    function_names = list(model.functions)
    for name in function_names:
        index = tree.body.index(model.functions[name])
        for other in function_names:
            if other != name:
                mutated = copy.deepcopy(tree)
                mutated.body[index].name = other  # type: ignore
                yield "duplicate-function-name", f"{name}->{other}", render(mutated)
                break
        for reserved in RESERVED_MEMBER_NAMES[:3]:
            mutated = copy.deepcopy(tree)
            mutated.body[index].name = reserved  # type: ignore
            yield "reserved-function-name", f"{name}->{reserved}", render(mutated)


def rename_property(cls: ast.ClassDef, old: str, new: str) -> None:
    """Rename a property consistently (declaration, constructor argument, assignment)."""
    for node in ast.walk(cls):
        if isinstance(node, ast.AnnAssign) and isinstance(node.target, ast.Name) and node.target.id == old:
            node.target.id = new
        elif isinstance(node, ast.arg) and node.arg == old:
            node.arg = new
        elif isinstance(node, ast.Attribute) and node.attr == old:
            node.attr = new
        elif isinstance(node, ast.Name) and node.id == old:
            node.id = new
        elif isinstance(node, ast.keyword) and node.arg == old:
            node.arg = new


def retype_constructor_argument(cls: ast.ClassDef, name: str, annotation: ast.expr) -> None:
    for node in cls.body:
        if isinstance(node, ast.FunctionDef) and node.name == "__init__":
            for arg in node.args.args:
                if arg.arg == name:
                    arg.annotation = copy.deepcopy(annotation)


def get_description(decorator: ast.Call) -> str:
    if len(decorator.args) >= 2 and isinstance(decorator.args[1], ast.Constant):
        return str(decorator.args[1].value)
    for kw in decorator.keywords:
        if kw.arg == "description" and isinstance(kw.value, ast.Constant):
            return str(kw.value.value)
    return "?"


def set_description(decorator: ast.Call, text: str) -> None:
    if len(decorator.args) >= 2:
        decorator.args[1] = ast.Constant(value=text)
        return
    for kw in decorator.keywords:
        if kw.arg == "description":
            kw.value = ast.Constant(value=text)


# --------------------------------------------------------------------------------------


def verdict(text: str) -> Tuple[str, Optional[BaseException], Optional[str]]:
    base = worker_tmp() / "c06"
    try:
        model_path = stream.write_model(base, text)
        observation = stream.load(model_path)
        if observation.stage == "crash":
            return "crash", observation.crash, None
        if observation.stage == "accepted":
            return "accepted", None, None
        return "rejected", None, observation.error
    finally:
        shutil.rmtree(base, ignore_errors=True)


def work(shard: Any) -> Result:
    result = Result()
    if shard[0] == "rules":
        seed = shard[1]
        text = gen_dev.seed_text(seed)
        seen = set()  # type: Set[str]
        for rule, site, mutant in rule_mutants(text):
            if mutant in seen:
                continue
            seen.add(mutant)
            try:
                ast.parse(mutant)
            except SyntaxError:
                continue
            case = {"kind": "rule", "rule": rule, "site": site, "seed": seed, "text": mutant}
            outcome, crash, error = verdict(mutant)
            result.evaluations += 1
            result.states += 1
            result.transitions += 1
            result.nontrivial += 1
            result.outcomes.add(f"{rule}:{outcome}")
            result.extra.setdefault("rule_counts", {})
            result.extra["rule_counts"][rule] = result.extra["rule_counts"].get(rule, 0) + 1
            if outcome == "accepted":
                result.add_violation(
                    f"rule-not-enforced:{rule}", f"{seed}: {site} is accepted", case
                )
            elif outcome == "crash":
                assert crash is not None
                result.add_violation(
                    f"crash-instead-of-rejection:{rule}:" + crash_signature(crash),
                    f"{seed}: {site}: {short_exc(crash)[:160]}",
                    case,
                )
        result.samples.append({"seed": seed, "rule_mutants": result.evaluations})
        return result

    _, seed, menu, index, slices = shard
    for descriptor, text in gen_dev.mutants_of_shard(seed, menu, index, slices):
        result.states += 1
        try:
            with time_limit(60):
                outcome, _, _ = verdict(text)
        except CaseTimeout:
            result.timeouts += 1
            continue
        if outcome != "accepted":
            result.outcomes.add(outcome)
            continue
        result.evaluations += 1
        result.transitions += 1
        result.nontrivial += 1
        problems = definite_violations(text)
        result.outcomes.add("accepted-clean" if not problems else "accepted-with-violation")
        for rule, explanation in problems:
            result.add_violation(
                f"accepted-model-breaks:{rule}",
                f"{seed} {descriptor}: {explanation}",
                {"kind": "accepted", "text": text, "seed": seed, "info": descriptor},
            )
    return result


def replay(case: Any) -> List[Violation]:
    outcome, crash, _ = verdict(case["text"])
    if case["kind"] == "rule":
        if outcome == "accepted":
            return [Violation(f"rule-not-enforced:{case['rule']}", "accepted", case)]
        if outcome == "crash" and crash is not None:
            return [
                Violation(
                    f"crash-instead-of-rejection:{case['rule']}:" + crash_signature(crash),
                    short_exc(crash)[:160],
                    case,
                )
            ]
        return []
    if outcome != "accepted":
        return []
    return [
        Violation(f"accepted-model-breaks:{rule}", explanation, case)
        for rule, explanation in definite_violations(case["text"])
    ]
