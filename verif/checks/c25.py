"""C25 — the snippet directory is loaded exactly (``specific_implementations``)."""
from __future__ import annotations

import io
import itertools
import os
import pathlib
import shutil
from typing import Any, Dict, Iterator, List, Optional, Set, Tuple

from verif.core import Result, Violation, crash_signature, short_exc, worker_tmp

ID = "C25"

NAMES = [
    "a.txt",
    "A_1.b.c",
    "_x",
    ".hidden",
    "sp ace.txt",
    "1x",
    "ü.txt",
    "a-b",
    "x/y.txt",
    "x/.h/y.txt",
    ".git/HEAD",
    "x/y/z.txt",
    "a\u00e9.txt",  # non-ASCII letter after an ASCII start
    "x/b\u0663",  # non-ASCII digit after an ASCII start, nested
]
# the names used for trees with three entries in the quick tier
NAMES_CORE = [0, 1, 2, 3, 4, 6, 8, 9, 10, 12]
KINDS = [
    "text",  # UTF-8 with surrounding whitespace
    "crlf",  # CRLF line ends, inner whitespace
    "empty",  # empty file
    "bad-utf8",  # not decodable
    "dir",  # empty directory
    "link-file",  # symlink to a regular file outside the directory
    "link-dir",  # symlink to an empty directory outside the directory
    "link-broken",  # dangling symlink
]
CONTENT = {
    "text": b"  \n hello \xc3\xa9 \t\n",
    "crlf": b"\r\n a \r\n b\r\n\r\n",
    "empty": b"",
    "bad-utf8": b"\xff\xfe\x00a",
}

BOUNDS = {
    "quick": {"max_entries": 3, "names": NAMES, "kinds": KINDS},
    "thorough": {
        "max_entries": 4,
        "names": NAMES[:5] + NAMES[8:11],
        "kinds": ["text", "empty", "bad-utf8", "dir", "link-file", "link-broken"],
    },
}

META = {
    "technique": (
        "exhaustive enumeration of directory trees up to an entry bound, real "
        "read_from_directory / main.execute against a 30-line reference model"
    ),
    "rule": (
        "every directory tree with <= N entries with distinct names from the name "
        "alphabet (valid keys, dotted keys, underscore, hidden file, space, leading "
        "digit, non-ASCII first / inner letter / inner digit, dash, nested, nested under "
        "hidden dir, .git/HEAD, doubly nested) x kind alphabet (text with whitespace, CRLF text, empty, invalid UTF-8, "
        "empty directory, symlink to file, symlink to directory, broken symlink); "
        "non-trivial = the tree has >= 1 non-hidden regular file; distinct by "
        "construction (set of (name, kind))"
    ),
    "bounds": {
        "quick": "N<=2 entries over 14 names x 8 kinds, N=3 entries over 10 core names x 8 kinds",
        "thorough": "N<=3 entries over 14 names x 8 kinds plus N=4 entries over 8 names x 6 kinds",
    },
    "assumptions": [
        "lenient points: a symlink to a regular file may be mapped (target content) or "
        "ignored; a broken symlink may be ignored or reported as an error naming it; "
        "CRLF may be kept or translated to LF by text-mode reading; `strip` is Python's "
        "str.strip",
        "an entry is hidden if any component of its relative path starts with '.'",
    ],
}

KEY_CHARS_FIRST = set("abcdefghijklmnopqrstuvwxyzABCDEFGHIJKLMNOPQRSTUVWXYZ_")
KEY_CHARS = KEY_CHARS_FIRST | set("0123456789.")


def reference_key_valid(key: str) -> bool:
    """Independent statement of the key rule: dotted identifiers separated by '/'."""
    parts = key.split("/")
    for part in parts:
        if len(part) == 0 or part[0] not in KEY_CHARS_FIRST:
            return False
        if any(ch not in KEY_CHARS for ch in part):
            return False
    return True


def _is_hidden(name: str) -> bool:
    return any(part.startswith(".") for part in name.split("/"))


# --------------------------------------------------------------------------------------
# Space
# --------------------------------------------------------------------------------------


def _compatible(entries: Tuple[Tuple[str, str], ...]) -> bool:
    """No entry may need another entry's path as a directory unless it is one."""
    names = [name for name, _ in entries]
    for name, kind in entries:
        for other in names:
            if other != name and other.startswith(name + "/"):
                return False
    return True


def trees(names: List[str], kinds: List[str], n: int) -> Iterator[Any]:
    for name_combo in itertools.combinations(names, n):
        for kind_combo in itertools.product(kinds, repeat=n):
            entries = tuple(zip(name_combo, kind_combo))
            if _compatible(entries):
                yield entries


def shards(tier: str) -> List[Any]:
    result = []  # type: List[Any]
    quick = BOUNDS["quick"]
    # quick space, sharded by the name combination
    for n in range(0, quick["max_entries"] + 1):
        indices = list(range(len(NAMES)))
        if n == 3 and tier == "quick":
            indices = NAMES_CORE
        for name_combo in itertools.combinations(indices, n):
            result.append(("q", n, name_combo))
    if tier == "thorough":
        thorough = BOUNDS["thorough"]
        indices = [NAMES.index(name) for name in thorough["names"]]
        for name_combo in itertools.combinations(indices, 4):
            result.append(("t", 4, name_combo))
    return result


def trees_of_shard(shard: Any) -> Iterator[Any]:
    space, n, name_combo = shard
    kinds = KINDS if space == "q" else BOUNDS["thorough"]["kinds"]
    names = [NAMES[i] for i in name_combo]
    for kind_combo in itertools.product(kinds, repeat=n):
        entries = tuple(zip(names, kind_combo))
        if _compatible(entries):
            yield entries


# --------------------------------------------------------------------------------------
# Materialisation and oracle
# --------------------------------------------------------------------------------------


def materialise(root: pathlib.Path, outside: pathlib.Path, entries: Any) -> None:
    root.mkdir()
    for name, kind in entries:
        path = root / name
        path.parent.mkdir(parents=True, exist_ok=True)
        if kind in CONTENT:
            path.write_bytes(CONTENT[kind])
        elif kind == "dir":
            path.mkdir()
        elif kind == "link-file":
            os.symlink(outside / "target.txt", path)
        elif kind == "link-dir":
            os.symlink(outside / "target_dir", path)
        elif kind == "link-broken":
            os.symlink(outside / "does-not-exist", path)
        else:
            raise AssertionError(kind)


def _normalise(text: str) -> str:
    return text.replace("\r\n", "\n")


def reference(entries: Any) -> Tuple[Dict[str, str], Dict[str, Optional[str]], Set[str]]:
    """
    Return (required mapping, optional mapping, names that must be reported).

    ``optional`` holds keys which *may* be present (value: the content they must have
    then).
    """
    required = {}  # type: Dict[str, str]
    optional = {}  # type: Dict[str, Optional[str]]
    must_fail = set()  # type: Set[str]
    for name, kind in entries:
        if _is_hidden(name):
            continue
        if kind in ("dir", "link-dir"):
            continue
        if kind == "link-broken":
            continue  # may be ignored or reported, never an exception
        if not reference_key_valid(name):
            must_fail.add(name)
            continue
        if kind == "bad-utf8":
            must_fail.add(name)
            continue
        if kind == "link-file":
            optional[name] = "t"
            continue
        required[name] = _normalise(CONTENT[kind].decode("utf-8").strip())
    return required, optional, must_fail


_MODEL_TEXT = '''\
class Something:
    """Represent something."""


__version__ = "dummy"
__xml_namespace__ = "https://dummy.com"
'''


def check_tree(entries: Any, base: pathlib.Path) -> Tuple[List[Violation], str]:
    from aas_core_codegen import main as codegen_main
    from aas_core_codegen import specific_implementations

    case = {"entries": [list(entry) for entry in entries]}
    violations = []  # type: List[Violation]

    work_dir = base / "c25"
    if work_dir.exists():
        shutil.rmtree(work_dir)
    work_dir.mkdir()
    outside = work_dir / "outside"
    outside.mkdir()
    (outside / "target.txt").write_text(" t ", encoding="utf-8")
    (outside / "target_dir").mkdir()
    root = work_dir / "snippets"
    try:
        materialise(root, outside, entries)

        try:
            mapping, errors = specific_implementations.read_from_directory(root)
        except Exception as exc:
            kinds = sorted({kind for _, kind in entries if kind.startswith("link")})
            return (
                [
                    Violation(
                        "exception:" + crash_signature(exc),
                        f"{short_exc(exc)[:200]}",
                        case,
                    )
                ],
                "exception",
            )

        if (mapping is None) == (errors is None):
            return [Violation("not-xor", "both/neither of (mapping, errors)", case)], "x"

        required, optional, must_fail = reference(entries)
        hidden_names = [name for name, _ in entries if _is_hidden(name)]

        if errors is not None:
            outcome = "errors"
            if len(errors) == 0 or not all(
                isinstance(error, str) and error for error in errors
            ):
                violations.append(Violation("empty-errors", "empty error list", case))
            joined = "\n".join(errors)
            for name in sorted(must_fail):
                if name not in joined and name.split("/")[-1] not in joined:
                    violations.append(
                        Violation(
                            "error-does-not-name-file",
                            f"{name!r} is not named in {errors!r}",
                            case,
                        )
                    )
            if not must_fail:
                # An error for something which the reference accepts: only a broken
                # symlink may legitimately be reported.
                broken = [name for name, kind in entries if kind == "link-broken"]
                explained = any(
                    name in joined or name.split("/")[-1] in joined for name in broken
                )
                if not explained:
                    hidden_blamed = [
                        name
                        for name in hidden_names
                        if name in joined
                    ]
                    signature = (
                        "hidden-entry-not-ignored"
                        if hidden_blamed
                        else "valid-tree-rejected"
                    )
                    violations.append(
                        Violation(signature, f"errors for a valid tree: {errors!r}", case)
                    )
        else:
            assert mapping is not None
            outcome = "mapping"
            if must_fail:
                kinds = sorted(
                    {kind if kind == "bad-utf8" else "bad-key"
                     for name, kind in entries if name in must_fail}
                )
                violations.append(
                    Violation(
                        "bad-file-accepted:" + "+".join(kinds),
                        f"{sorted(must_fail)} must be reported; got {dict(mapping)!r}",
                        case,
                    )
                )
            got = {str(key): _normalise(str(value)) for key, value in mapping.items()}
            for key, value in required.items():
                if key not in got:
                    violations.append(
                        Violation("file-not-mapped", f"{key!r} is missing", case)
                    )
                elif got[key] != value:
                    violations.append(
                        Violation(
                            "content-differs",
                            f"{key!r}: got {got[key]!r}, expected {value!r}",
                            case,
                        )
                    )
            for key, value in got.items():
                if key in required:
                    continue
                if key in optional:
                    if value != optional[key]:
                        violations.append(
                            Violation(
                                "content-differs",
                                f"{key!r}: got {value!r}, expected {optional[key]!r}",
                                case,
                            )
                        )
                    continue
                signature = (
                    "hidden-entry-not-ignored"
                    if _is_hidden(key)
                    else "unexpected-key"
                )
                violations.append(
                    Violation(signature, f"unexpected key {key!r} in the mapping", case)
                )

        # The same through the program entry point: error case => exit 1 + report.
        if errors is not None and not violations:
            model_path = work_dir / "model.py"
            model_path.write_text(_MODEL_TEXT, encoding="utf-8")
            params = codegen_main.Parameters(
                model_path=model_path,
                target=codegen_main.Target.JSONSCHEMA,
                snippets_dir=root,
                output_dir=work_dir / "out",
            )
            stdout, stderr = io.StringIO(), io.StringIO()
            try:
                rc = codegen_main.execute(params, stdout=stdout, stderr=stderr)
            except Exception as exc:
                violations.append(
                    Violation(
                        "execute-exception:" + crash_signature(exc),
                        short_exc(exc)[:200],
                        case,
                    )
                )
            else:
                text = stderr.getvalue()
                if rc != 1 or not text.startswith(
                    "Failed to resolve the implementation-specific snippets:\n* "
                ):
                    violations.append(
                        Violation(
                            "execute-no-report",
                            f"rc={rc}, stderr={text[:200]!r}",
                            case,
                        )
                    )
        return violations, outcome
    finally:
        shutil.rmtree(work_dir, ignore_errors=True)


def work(shard: Any) -> Result:
    result = Result()
    base = worker_tmp()
    for entries in trees_of_shard(shard):
        violations, outcome = check_tree(entries, base)
        result.evaluations += 1
        result.states += 1
        result.transitions += 1
        required, optional, must_fail = reference(entries)
        if required or optional or must_fail:
            result.nontrivial += 1
        result.outcomes.add(outcome)
        for v in violations:
            result.add_violation(v.signature, v.message, v.case)
        if len(result.samples) < 1 and len(entries) == 3 and outcome == "mapping":
            result.samples.append({"entries": [list(e) for e in entries], "outcome": outcome})
    return result


def replay(case: Any) -> List[Violation]:
    entries = tuple((name, kind) for name, kind in case["entries"])
    return check_tree(entries, worker_tmp())[0]
