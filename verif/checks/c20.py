"""C20 — generated source files are syntactically well-formed."""
from __future__ import annotations

import ast
import io
import itertools
import json
import pathlib
import re
import shutil
import tokenize
import xml.etree.ElementTree as ET
from typing import Any, Dict, Iterator, List, Optional, Sequence, Tuple

from verif import exttools, harness, stream
from verif.core import CaseTimeout, Result, Violation, short_exc, time_limit, worker_tmp

ID = "C20"

TOKENS = [
    '"', "'", '"""', "'''", "\\", "*/", "/*", "//", "<", ">", "&", "]]>", "--", "`", "${",
    "{@", "@param", "#", "%", "\u00a0", "\u2028", "}", "{", "<!--", "-->", "</summary>", "\\n",
    # RST inline literals: another path through the description renderers
    "``List<T>``", "``a&b``", "``*/``", "``\"\"\"``", "``${x}``",
]

META = {
    "technique": (
        "exhaustive enumeration of token sequences (comment / string / markup "
        "terminators of all target languages) injected at every description, message and "
        "constant-value site of a meta-model, at start / middle / end; all 8 real "
        "targets; every generated file is parsed by a real parser where one exists "
        "(Python ast, TypeScript parser of node 22, javac's parser, json, XML) and, for "
        "every language, its code skeleton (all tokens outside comments and string "
        "literals) is compared with the skeleton generated for a harmless word at the "
        "same site"
    ),
    "rule": (
        "tokens {\" ' \"\"\" ''' \\ */ /* // < > & ]]> -- ` ${ {@ @param # % NBSP U+2028 "
        "} { <!-- --> </summary> \\n, and the RST inline literals ``List<T>`` ``a&b`` ``*/`` ``\"\"\"`` ``${x}``}; sites {class docstring, property docstring, "
        "enumeration docstring, literal docstring, method-free verification docstring, "
        "invariant message, constant description, constant string value, enumeration "
        "literal value, meta-model docstring}; positions {start, middle, end}; only "
        "texts which the front end (docutils included) accepts are cases; oracle per "
        "generated file: .py parses with ast; .ts is accepted by node's TypeScript "
        "parser; .java by javac's parser (JavacTask.parse, no classpath); .json / .xsd / "
        ".xml well-formed; C# `///` blocks are well-formed XML; for .py .ts .java .cs "
        ".go .cpp .hpp the skeleton of code tokens equals the skeleton of the baseline "
        "(same model with the word `zzz` injected): injected text can not leave its "
        "comment, docstring or literal; non-trivial = accepted injected models x targets "
        "which generated code"
    ),
    "bounds": {
        "quick": "1 token (32, incl. 5 RST inline literals) at the end of every site and the 10 dangerous tokens at start / middle of the class docstring",
        "thorough": "1 token at all sites and positions; all pairs of the 10 dangerous tokens at the end of every site",
    },
    "assumptions": [
        "C#, Go and C++ have no parser here: the lexer written for this check (comments, "
        "string / char / raw / verbatim / template literals, bracket balance) and the "
        "skeleton comparison are a lexical criterion, weaker than parsing",
        "the baseline model is assumed to generate well-formed code (it is parsed too)",
    ],
}

SITES = [
    "class-doc", "property-doc", "enum-doc", "literal-doc", "function-doc", "invariant-message",
    "constant-description", "constant-value", "literal-value", "model-doc",
]
END_ONLY_SITES = ["class-doc", "invariant-message", "constant-value"]


def place(text: str, position: str) -> str:
    if position == "start":
        return f"{text} begins this sentence"
    if position == "middle":
        return f"The text {text} is in the middle"
    return f"This sentence ends with {text}"


def model(site: str, injected: str, position: str) -> str:
    def doc(name: str, default: str) -> str:
        return place(injected, position) if site == name else default

    def triple(text: str) -> str:
        # the docstring is written as a Python string expression so that any text is
        # representable in the meta-model source
        return repr(text + ".") if not text.endswith(".") else repr(text)

    model_doc = f"__doc__ = {triple(doc('model-doc', 'Provide a dummy meta-model'))}\n\n" if site == "model-doc" else ""
    lines = []  # type: List[str]
    lines.append("@verification")
    lines.append("def is_fine(text: str) -> bool:")
    lines.append(f"    {triple(doc('function-doc', 'Check that the text is fine'))}")
    lines.append("    return len(text) > 0")
    lines.append("")
    lines.append("")
    lines.append("class Kind(Enum):")
    lines.append(f"    {triple(doc('enum-doc', 'Represent a kind'))}")
    lines.append("")
    literal_value = place(injected, position) if site == "literal-value" else "first"
    lines.append(f"    First = {literal_value!r}")
    lines.append(f"    {triple(doc('literal-doc', 'Be the first'))}")
    lines.append("")
    lines.append('    Second = "second"')
    lines.append("")
    lines.append("")
    constant_value = place(injected, position) if site == "constant-value" else "hello"
    description = doc("constant-description", "Greet the world")
    lines.append(f"Greeting: str = constant_str(value={constant_value!r}, description={(description + '.')!r})")
    lines.append("")
    lines.append("")
    message = doc("invariant-message", "Text must be fine") + "."
    lines.append(f"@invariant(lambda self: is_fine(self.text), {message!r})")
    lines.append("class Something(DBC):")
    lines.append(f"    {triple(doc('class-doc', 'Represent something'))}")
    lines.append("")
    lines.append("    text: str")
    lines.append(f"    {triple(doc('property-doc', 'Hold a text'))}")
    lines.append("")
    lines.append("    kind: Optional[Kind]")
    lines.append("")
    lines.append("    def __init__(self, text: str, kind: Optional[Kind] = None) -> None:")
    lines.append("        self.text = text")
    lines.append("        self.kind = kind")
    lines.append("")
    lines.append("")
    lines.append('__version__ = "dummy"')
    lines.append('__xml_namespace__ = "https://dummy.com"')
    return model_doc + "\n".join(lines) + "\n"


DANGEROUS = ['"', '"""', "\\", "*/", "]]>", "`", "${", "</summary>", "-->", "\u2028"]


def cases(tier: str) -> Iterator[Tuple[str, Tuple[str, ...], str]]:
    if tier == "quick":
        for site in SITES:
            for token in TOKENS:
                yield site, (token,), "end"
        for site in END_ONLY_SITES[:1]:
            for position in ("start", "middle"):
                for token in DANGEROUS:
                    yield site, (token,), position
        return
    for site in SITES:
        for position in ("start", "middle", "end"):
            for token in TOKENS:
                yield site, (token,), position
    for site in SITES:
        for first, second in itertools.product(DANGEROUS, repeat=2):
            yield site, (first, second), "end"


SLICES = {"quick": 32, "thorough": 96}


def shards(tier: str) -> List[Any]:
    return [(tier, index, SLICES[tier]) for index in range(SLICES[tier])]


# --------------------------------------------------------------------------------------
# Skeletons
# --------------------------------------------------------------------------------------


class LexError(Exception):
    pass


def c_family_skeleton(text: str, language: str) -> List[str]:
    """
    Code tokens outside comments and literals for C++, C#, Go, Java, TypeScript.
    Raises LexError for an unterminated comment / literal or unbalanced brackets.
    """
    tokens = []  # type: List[str]
    stack = []  # type: List[str]
    opened_at = []  # type: List[int]
    i, n = 0, len(text)
    pairs = {")": "(", "]": "[", "}": "{"}
    while i < n:
        ch = text[i]
        two = text[i : i + 2]
        if ch in " \t\r\n\f\v\ufeff":
            i += 1
        elif two == "//":
            end = text.find("\n", i)
            i = n if end < 0 else end
        elif two == "/*":
            end = text.find("*/", i + 2)
            if end < 0:
                raise LexError(f"unterminated block comment at line {text.count(chr(10), 0, i) + 1}")
            i = end + 2
        elif language == "cpp" and ch == "#":
            end = text.find("\n", i)
            tokens.append("#pp")
            i = n if end < 0 else end
        elif language == "cpp" and re.match(r'(u8|u|U|L)?R"', text[i : i + 4]) and (i == 0 or not (text[i - 1].isalnum() or text[i - 1] == "_")):
            match = re.match(r'(u8|u|U|L)?R"([^()\\ ]{0,16})\(', text[i:])
            if match is None:
                raise LexError(f"bad raw string at line {text.count(chr(10), 0, i) + 1}")
            closing = ")" + match.group(2) + '"'
            end = text.find(closing, i + match.end())
            if end < 0:
                raise LexError(f"unterminated raw string at line {text.count(chr(10), 0, i) + 1}")
            tokens.append("S")
            i = end + len(closing)
        elif language == "csharp" and (text.startswith('@"', i) or text.startswith('$@"', i) or text.startswith('@$"', i)):
            i = text.index('"', i) + 1
            while True:
                end = text.find('"', i)
                if end < 0:
                    raise LexError(f"unterminated verbatim string at line {text.count(chr(10), 0, i) + 1}")
                if text.startswith('""', end):
                    i = end + 2
                    continue
                i = end + 1
                break
            tokens.append("S")
        elif ch == "`" and language in ("golang", "typescript"):
            if language == "golang":
                end = text.find("`", i + 1)
                if end < 0:
                    raise LexError(f"unterminated raw string at line {text.count(chr(10), 0, i) + 1}")
                tokens.append("S")
                i = end + 1
            else:
                i += 1
                tokens.append("S")
                depth = 0
                while True:
                    if i >= n:
                        raise LexError(f"unterminated template literal at line {text.count(chr(10), 0, i) + 1}")
                    c = text[i]
                    if c == "\\":
                        i += 2
                    elif c == "`" and depth == 0:
                        i += 1
                        break
                    elif depth > 0 and c in "\"'":
                        # a string literal inside of an interpolated expression
                        end = i + 1
                        while end < n and text[end] != c:
                            end += 2 if text[end] == "\\" else 1
                        if end >= n:
                            raise LexError("unterminated string in a template expression")
                        i = end + 1
                    elif depth == 0 and text.startswith("${", i):
                        tokens.append("INTERP")
                        depth += 1
                        i += 2
                    elif depth > 0 and c == "{":
                        depth += 1
                        i += 1
                    elif c == "}" and depth > 0:
                        depth -= 1
                        i += 1
                    else:
                        i += 1
        elif (
            language == "typescript"
            and ch == "/"
            and (not tokens or tokens[-1] in ("(", ",", "=", ":", "[", "!", "&", "|", "?", "{", "}", ";", "return", "=>"))
        ):
            # a regular-expression literal
            i += 1
            in_class = False
            while True:
                if i >= n or text[i] == "\n":
                    raise LexError("unterminated regular-expression literal")
                c = text[i]
                if c == "\\":
                    i += 2
                elif c == "[":
                    in_class = True
                    i += 1
                elif c == "]":
                    in_class = False
                    i += 1
                elif c == "/" and not in_class:
                    i += 1
                    break
                else:
                    i += 1
            while i < n and text[i].isalpha():
                i += 1
            tokens.append("R")
        elif ch == '"' or (ch == "'" and language in ("typescript",)):
            quote = ch
            i += 1
            while True:
                if i >= n:
                    raise LexError(f"unterminated string literal at line {text.count(chr(10), 0, i) + 1}")
                c = text[i]
                if c == "\\":
                    i += 2
                elif c == quote:
                    i += 1
                    break
                elif c == "\n":
                    raise LexError(f"line break in a string literal at line {text.count(chr(10), 0, i) + 1}")
                else:
                    i += 1
            tokens.append("S")
        elif ch == "'":
            # character literal (or a digit separator in C++: preceded by a digit)
            if language == "cpp" and i > 0 and text[i - 1].isdigit() and i + 1 < n and text[i + 1].isdigit():
                i += 1
                continue
            match = re.match(r"'(\\.[^']*|[^'\\\n])'", text[i:])
            if match is None:
                raise LexError(f"bad character literal at line {text.count(chr(10), 0, i) + 1}")
            tokens.append("C")
            i += match.end()
        elif ch.isalpha() or ch == "_" or ch == "$" or ch == "@":
            match = re.match(r"[@$\w]+", text[i:])
            assert match is not None
            tokens.append(match.group(0))
            i += match.end()
        elif ch.isdigit():
            match = re.match(r"[\w.]+", text[i:])
            assert match is not None
            tokens.append("N")
            i += match.end()
        else:
            if ch in "([{":
                stack.append(ch)
                opened_at.append(text.count(chr(10), 0, i) + 1)
            elif ch in ")]}":
                if stack and stack[-1] == pairs[ch]:
                    opened_at.pop()
                    stack.pop()
                else:
                    # Recorded, not raised: generated code may hold an imbalance of its
                    # own (e.g. under `#ifdef DEBUG`); the comparison with the baseline
                    # skeleton decides.
                    tokens.append("<UNBALANCED>")
            tokens.append(ch)
            i += 1
    if stack:
        tokens.append(f"<UNCLOSED {''.join(stack)}>")
    return tokens


def python_skeleton(text: str) -> List[str]:
    tokens = []  # type: List[str]
    for token in tokenize.generate_tokens(io.StringIO(text).readline):
        if token.type in (tokenize.COMMENT, tokenize.NL, tokenize.NEWLINE, tokenize.INDENT, tokenize.DEDENT, tokenize.ENDMARKER):
            continue
        if token.type == tokenize.STRING or token.type >= 60 and tokenize.tok_name.get(token.type, "").startswith("FSTRING"):
            if not tokens or tokens[-1] != "S":
                tokens.append("S")
            continue
        tokens.append(token.string)
    return tokens


LANGUAGE_OF = {
    ".py": "python", ".ts": "typescript", ".java": "java", ".cs": "csharp", ".go": "golang",
    ".cpp": "cpp", ".hpp": "cpp",
}


def skeleton_of(path: pathlib.Path) -> Optional[List[str]]:
    language = LANGUAGE_OF.get(path.suffix)
    if language is None:
        return None
    text = path.read_text(encoding="utf-8")
    if language == "python":
        return python_skeleton(text)
    return c_family_skeleton(text, language)


def csharp_doc_problems(text: str) -> Optional[str]:
    block = []  # type: List[str]

    def flush() -> Optional[str]:
        if not block:
            return None
        xml = "<root>" + "\n".join(block) + "</root>"
        block.clear()
        try:
            ET.fromstring(xml)
        except ET.ParseError as exc:
            return f"{exc}: {xml[:120]!r}"
        return None

    for line in text.splitlines():
        stripped = line.strip()
        if stripped.startswith("///"):
            block.append(stripped[3:])
        else:
            problem = flush()
            if problem:
                return problem
    return flush()


# --------------------------------------------------------------------------------------
# External parsers, batched per model
# --------------------------------------------------------------------------------------

NODE_SCRIPT = """
const fs = require('fs'); const path = require('path'); const m = require('node:module');
function walk(d, out) { for (const e of fs.readdirSync(d, {withFileTypes: true})) {
  const p = path.join(d, e.name); if (e.isDirectory()) walk(p, out); else if (p.endsWith('.ts')) out.push(p); } }
const files = []; walk(process.argv[2], files);
for (const f of files) { try { m.stripTypeScriptTypes(fs.readFileSync(f, 'utf8'), {mode: 'transform'}); }
  catch (e) { console.log(JSON.stringify({file: f, error: String(e.message).slice(0, 160)})); } }
"""

JAVA_DRIVER = """
import com.sun.source.util.JavacTask;
import javax.tools.*;
import java.nio.file.*;
import java.util.*;
import java.util.stream.*;
public class ParseOnly {
  public static void main(String[] args) throws Exception {
    JavaCompiler compiler = ToolProvider.getSystemJavaCompiler();
    List<Path> files; try (Stream<Path> s = Files.walk(Paths.get(args[0]))) {
      files = s.filter(p -> p.toString().endsWith(".java")).collect(Collectors.toList()); }
    for (Path file : files) {
      DiagnosticCollector<JavaFileObject> diagnostics = new DiagnosticCollector<>();
      StandardJavaFileManager fm = compiler.getStandardFileManager(diagnostics, null, null);
      JavacTask task = (JavacTask) compiler.getTask(null, fm, diagnostics, Arrays.asList("-proc:none"), null,
          fm.getJavaFileObjects(file.toFile()));
      task.parse();
      for (Diagnostic<? extends JavaFileObject> d : diagnostics.getDiagnostics()) {
        if (d.getKind() == Diagnostic.Kind.ERROR) {
          System.out.println(file + "\\t" + d.getMessage(null).replace('\\n', ' ')); break; } }
    }
  }
}
"""

_JAVA_DRIVER_DIR = None  # type: Optional[pathlib.Path]


def java_driver() -> Optional[pathlib.Path]:
    global _JAVA_DRIVER_DIR
    if exttools.javac() is None or exttools.java() is None:
        return None
    if _JAVA_DRIVER_DIR is not None and (_JAVA_DRIVER_DIR / "ParseOnly.class").exists():
        return _JAVA_DRIVER_DIR
    directory = worker_tmp() / "c20-java-driver"
    directory.mkdir(parents=True, exist_ok=True)
    (directory / "ParseOnly.java").write_text(JAVA_DRIVER, encoding="utf-8")
    rc, _, stderr = exttools.run([exttools.javac(), "-nowarn", "-d", str(directory), str(directory / "ParseOnly.java")], timeout=300)
    if rc != 0:
        return None
    _JAVA_DRIVER_DIR = directory
    return directory


def external_problems(
    outputs: Dict[str, pathlib.Path], base: pathlib.Path, skipped: List[str], full_paths: bool = False
) -> List[Tuple[str, str, str]]:
    """(target, file, problem) from node's TypeScript parser and javac's parser."""
    problems = []  # type: List[Tuple[str, str, str]]
    node = exttools.node22()
    if "typescript" in outputs:
        if node is None:
            if "node22" not in skipped:
                skipped.append("node22")
        else:
            script = base / "parse_ts.cjs"
            script.write_text(NODE_SCRIPT, encoding="utf-8")
            rc, stdout, stderr = exttools.run([node, "--no-warnings", str(script), str(outputs["typescript"])], timeout=300)
            for line in stdout.splitlines():
                try:
                    item = json.loads(line)
                except ValueError:
                    continue
                problems.append(("typescript", item["file"] if full_paths else pathlib.Path(item["file"]).name, item["error"]))
    if "java" in outputs:
        driver = java_driver()
        if driver is None:
            if "javac" not in skipped:
                skipped.append("javac")
        else:
            rc, stdout, stderr = exttools.run(
                [exttools.java(), "-XX:TieredStopAtLevel=1", "-cp", str(driver), "ParseOnly", str(outputs["java"])],
                timeout=600,
            )
            for line in stdout.splitlines():
                if "\t" in line:
                    file_name, message = line.split("\t", 1)
                    problems.append(("java", file_name if full_paths else pathlib.Path(file_name).name, message[:160]))
    return problems


# --------------------------------------------------------------------------------------
# Work
# --------------------------------------------------------------------------------------


def generate_all(text: str, base: pathlib.Path) -> Optional[Dict[str, pathlib.Path]]:
    """Output directories of the targets which generated code; None if not accepted."""
    model_path = stream.write_model(base, text)
    observation = stream.load(model_path)
    if observation.stage != "accepted":
        return None
    assert observation.result is not None
    symbol_table, atok = observation.result
    outputs = {}  # type: Dict[str, pathlib.Path]
    for target in harness.TARGETS:
        snippets = harness.synth_snippets(target, base / f"sn-{target}", "Something")
        out = base / f"out-{target}"
        try:
            rc, _, _ = harness.execute_target(symbol_table, atok, model_path, target, snippets, out)
        except Exception:
            continue  # C02's business
        if rc == 0:
            outputs[target] = out
    return outputs


_BASELINES = {}  # type: Dict[Tuple[str, str], Dict[str, Any]]


def baseline(site: str, position: str) -> Dict[str, Any]:
    key = (site, position)
    if key in _BASELINES:
        return _BASELINES[key]
    base = worker_tmp() / "c20-baseline"
    skeletons = {}  # type: Dict[str, Any]
    try:
        outputs = generate_all(model(site, "zzz", position), base)
        assert outputs is not None, "the baseline model is rejected"
        for target, out in outputs.items():
            for path in sorted(out.rglob("*")):
                if path.is_file():
                    try:
                        skeletons[f"{target}/{path.relative_to(out).as_posix()}"] = skeleton_of(path)
                    except Exception as exc:
                        skeletons[f"{target}/{path.relative_to(out).as_posix()}"] = f"error: {exc}"
    finally:
        shutil.rmtree(base, ignore_errors=True)
    _BASELINES[key] = skeletons
    return skeletons


def token_class(tokens: Sequence[str]) -> str:
    return "+".join(
        {
            '"': "dquote", "'": "squote", '"""': "triple-dquote", "'''": "triple-squote", "\\": "backslash",
            "*/": "comment-end", "/*": "comment-start", "//": "line-comment", "<": "lt", ">": "gt",
            "&": "amp", "]]>": "cdata-end", "--": "dashes", "`": "backtick", "${": "dollar-brace",
            "{@": "brace-at", "@param": "at-param", "#": "hash", "%": "percent", "\u00a0": "nbsp",
            "\u2028": "line-separator", "}": "rbrace", "{": "lbrace", "<!--": "xml-comment-start",
            "``List<T>``": "literal-lt-gt", "``a&b``": "literal-amp", "``*/``": "literal-comment-end",
            "``\"\"\"``": "literal-triple-dquote", "``${x}``": "literal-dollar-brace",
            "-->": "xml-comment-end", "</summary>": "closing-tag", "\\n": "backslash-n",
        }[t]
        for t in tokens
    )


def check_case(
    site: str, tokens: Tuple[str, ...], position: str, result: Result, keep: Optional[Dict[str, Any]] = None
) -> None:
    injected = " ".join(tokens) if len(tokens) > 1 else tokens[0]
    text = model(site, injected, position)
    base = worker_tmp() / "c20"
    case = {"site": site, "tokens": list(tokens), "position": position}
    result.states += 1
    try:
        outputs = generate_all(text, base)
        if outputs is None:
            result.outcomes.add("not-accepted")
            return
        reference = baseline(site, position)
        label = f"{site}:{token_class(tokens)}"
        for target, out in outputs.items():
            result.evaluations += 1
            result.nontrivial += 1
            for path in sorted(out.rglob("*")):
                if not path.is_file():
                    continue
                result.transitions += 1
                relative = f"{target}/{path.relative_to(out).as_posix()}"
                problem = None  # type: Optional[str]
                kind = "not-well-formed"
                try:
                    content = path.read_text(encoding="utf-8")
                    if path.suffix == ".py":
                        ast.parse(content)
                    elif path.suffix == ".json":
                        json.loads(content)
                    elif path.suffix in (".xsd", ".xml"):
                        ET.fromstring(content)
                    elif path.suffix == ".cs":
                        problem = csharp_doc_problems(content)
                        if problem:
                            kind = "doc-comment-not-xml"
                    if problem is None and path.suffix in LANGUAGE_OF:
                        skeleton = skeleton_of(path)
                        expected = reference.get(relative)
                        if isinstance(expected, list) and skeleton != expected:
                            kind = "code-skeleton-differs"
                            problem = _skeleton_difference(expected, skeleton or [])
                except (SyntaxError, ValueError, ET.ParseError, LexError, tokenize.TokenError, IndentationError) as exc:
                    problem = f"{type(exc).__name__}: {str(exc)[:120]}"
                if problem is not None:
                    result.add_violation(
                        f"{kind}:{target}:{label}",
                        f"{relative}: {problem} (site {site}, {position}, injected {injected!r})",
                        dict(case, target=target),
                    )
        if keep is None:
            for target, file_name, message in external_problems(outputs, base, result.skipped_tools):
                result.add_violation(
                    f"parser-rejects:{target}:{label}",
                    f"{target}/{file_name}: {message} (site {site}, {position}, injected {injected!r})",
                    dict(case, target=target),
                )
        else:
            # the real parsers are run once per shard over everything kept
            number = len(keep["cases"])
            keep["cases"].append((case, label, injected))
            for target in ("typescript", "java"):
                if target in outputs:
                    destination = keep["dir"] / target / f"case{number}"
                    destination.parent.mkdir(parents=True, exist_ok=True)
                    shutil.move(str(outputs[target]), str(destination))
        result.outcomes.add("checked")
    finally:
        shutil.rmtree(base, ignore_errors=True)


def _skeleton_difference(expected: List[str], got: List[str]) -> str:
    for index, (a, b) in enumerate(zip(expected, got)):
        if a != b:
            return f"token {index}: expected {' '.join(expected[index:index + 5])!r}, got {' '.join(got[index:index + 5])!r}"
    return f"{len(expected)} tokens expected, {len(got)} found"


def work(shard: Any) -> Result:
    tier, index, slices = shard
    result = Result()
    kept = worker_tmp() / f"c20-kept-{index}"
    shutil.rmtree(kept, ignore_errors=True)
    keep = {"dir": kept, "cases": []}  # type: Dict[str, Any]
    try:
        for number, (site, tokens, position) in enumerate(cases(tier)):
            if number % slices != index:
                continue
            try:
                with time_limit(300):
                    check_case(site, tokens, position, result, keep)
            except CaseTimeout:
                result.timeouts += 1
            if len(result.samples) < 1:
                result.samples.append({"site": site, "tokens": list(tokens), "position": position})
        outputs = {t: kept / t for t in ("typescript", "java") if (kept / t).is_dir()}
        kept.mkdir(parents=True, exist_ok=True)
        for target, file_path, message in external_problems(outputs, kept, result.skipped_tools, full_paths=True):
            match = re.search(r"/case(\d+)/", file_path)
            if match is None:
                continue
            case, label, injected = keep["cases"][int(match.group(1))]
            result.add_violation(
                f"parser-rejects:{target}:{label}",
                f"{target}/{pathlib.Path(file_path).name}: {message} (site {case['site']}, {case['position']}, injected {injected!r})",
                dict(case, target=target),
            )
    finally:
        shutil.rmtree(kept, ignore_errors=True)
    return result


def replay(case: Any) -> List[Violation]:
    result = Result()
    check_case(case["site"], tuple(case["tokens"]), case["position"], result)
    return [v for v in result.violations if v.case.get("target") == case.get("target")]
