"""
C18 — regex virtual-machine programs match like the pattern.

Every anchored pattern of the grammar is parsed by the real front end, translated by the
real ``intermediate.revm.translate`` and the flattened program is executed by a reference
interpreter of the documented instruction semantics (a Thompson/Pike VM); the verdict is
compared with ``re.fullmatch`` on every probe string (no line breaks).
"""
from __future__ import annotations

import re
import warnings
import pathlib
from typing import Any, Iterator, List, Optional, Sequence, Set, Tuple

from verif import gen_re
from verif.core import (
    CaseTimeout,
    Result,
    Violation,
    crash_signature,
    short_exc,
    time_limit,
)

ID = "C18"

warnings.filterwarnings("ignore")

LEAVES = gen_re.LEAVES_BASIC + gen_re.LEAVES_EXTRA + ["^", "$", "[^a-b]", "\\^"]
QUANTS = gen_re.QUANTIFIERS_BASIC + gen_re.QUANTIFIERS_EXTRA + ["{0}", "{0,2}", "{3}"]
BASIC = (gen_re.LEAVES_BASIC, gen_re.QUANTIFIERS_BASIC)

BOUNDS = {
    "quick": {"full_k": 3, "basic_k": 4, "probe_len": 3},
    "thorough": {"full_k": 4, "basic_k": 5, "probe_len": 4},
}
N_SHARDS = 96

META = {
    "technique": (
        "exhaustive enumeration of anchored patterns from an AST grammar; the real "
        "revm.translate output is run by a reference Thompson-VM interpreter of the "
        "documented instruction set and compared with re.fullmatch on all probe strings"
    ),
    "rule": (
        "every pattern ^body$ and ^body.*$ where body is any pattern of the grammar "
        "(leaves a b . [ab] [^a] [a-c] [^a-b] \\x61 - \\. \\^ astral raw/escaped [a\\-] "
        "[\\x61-c] and inner ^ $; quantifiers ? * + {2} {1,2} {2,} {,2} {0,1} {0} {0,2} "
        "{3} *?; groups; unions) with cost <= K; a case counts when the meta-model "
        "front end's anchoring rule accepts it; non-trivial = the pattern accepts >= 1 "
        "and rejects >= 1 probe; probes = all strings of length <= P over "
        "{a, b, c, d} plus those of {-, ., ^, U+1F600} that occur literally in the "
        "pattern"
    ),
    "bounds": {
        "quick": "full grammar K=3, basic grammar K=4, probe length P=3 (every probe); compiled C++ matcher (pattern.cpp + revm.cpp of the cpp target): every third pattern of the K<=2 grammar x all probes of length <= 4 over {a,b,c,.}",
        "thorough": "full grammar K=4, basic grammar K=5, probe length P=4 (every probe); compiled C++ matcher: all patterns of the K<=3 grammar x all probes of length <= 4",
    },
    "assumptions": [
        "Python's re.fullmatch is the reference semantics of the pattern",
        "the reference VM implements the instruction semantics documented in "
        "intermediate/revm.py and mirrored by cpp/lib/_generate_revm.py (Match accepts "
        "as soon as a thread reaches it; End passes only at end of input)",
        "the generated C++ matcher itself is compiled and compared only in the "
        "thorough tier (see evidence key cpp_leg)",
    ],
}

PROBE_ALPHABET = ("a", "b", "c", "d", "-", ".", "^", "\U0001F600")


def probe_alphabet(pattern: str) -> Tuple[str, ...]:
    """The pattern's literal characters plus the neighbours c (of the ranges) and d."""
    chars = ["a", "b", "c", "d"]
    if "-" in pattern:
        chars.append("-")
    if "\\." in pattern:
        chars.append(".")
    if "\\^" in pattern:
        chars.append("^")
    if "\U0001F600" in pattern or "\\U0001f600" in pattern:
        chars.append("\U0001F600")
    return tuple(chars)


CPP_PARTS = {"quick": 1, "thorough": 12}
CPP_K = {"quick": 2, "thorough": 3}
CPP_BATCH = 160


def shards(tier: str) -> List[Any]:
    result = [(tier, index) for index in range(N_SHARDS)]  # type: List[Any]
    # the emitted C++ (pattern.cpp + revm.cpp of the cpp target), compiled and run
    for part in range(CPP_PARTS[tier]):
        result.append((tier, "cpp", part, CPP_PARTS[tier]))
    return result


def _bucket(text: str) -> int:
    value = 0
    for ch in text:
        value = (value * 1000003 + ord(ch)) % 2147483647
    return value % N_SHARDS


def patterns_of_shard(shard: Any) -> Iterator[str]:
    tier, index = shard
    bound = BOUNDS[tier]
    full = gen_re.Grammar(LEAVES, QUANTS).patterns_up_to(bound["full_k"])
    basic = gen_re.Grammar(*BASIC).patterns_up_to(bound["basic_k"])
    seen = set()  # type: Set[str]
    for body in full + basic:
        for pattern in (f"^{body}$", f"^{body}.*$"):
            if pattern in seen:
                continue
            seen.add(pattern)
            if _bucket(pattern) == index:
                yield pattern


# --------------------------------------------------------------------------------------
# Reference VM
# --------------------------------------------------------------------------------------


def flatten(root: Any) -> List[Any]:
    """Linearise the nested program into the list of leaves."""
    from aas_core_codegen.intermediate import revm

    result = []  # type: List[Any]

    def visit(node_or_leaf: Any) -> None:
        if isinstance(node_or_leaf, revm.Leaf):
            result.append(node_or_leaf)
        else:
            for child in node_or_leaf.children:
                visit(child)

    visit(root)
    return result


def _in_ranges(ranges: Sequence[Any], ch: str) -> bool:
    return any(ord(rng.first) <= ord(ch) <= ord(rng.last) for rng in ranges)


def vm_match(program: Sequence[Any], text: str) -> bool:
    """Reference interpreter: a thread set per input position."""
    from aas_core_codegen.intermediate import revm

    def closure(start: List[int], at_end: bool) -> Tuple[Set[int], bool]:
        """Follow Jump/Split (and End at the end of input); report reached Match."""
        seen = set()  # type: Set[int]
        stack = list(start)
        consuming = set()  # type: Set[int]
        while stack:
            pc = stack.pop()
            if pc in seen:
                continue
            seen.add(pc)
            if pc >= len(program):
                raise IndexError(f"program counter {pc} beyond the program")
            instruction = program[pc].instruction
            if isinstance(instruction, revm.InstructionMatch):
                return consuming, True
            elif isinstance(instruction, revm.InstructionJump):
                stack.append(instruction.target)
            elif isinstance(instruction, revm.InstructionSplit):
                stack.append(instruction.first_target)
                stack.append(instruction.second_target)
            elif isinstance(instruction, revm.InstructionEnd):
                if at_end:
                    stack.append(pc + 1)
            else:
                consuming.add(pc)
        return consuming, False

    threads = [0]
    for position, ch in enumerate(text):
        consuming, matched = closure(threads, at_end=False)
        if matched:
            return True
        threads = []
        for pc in sorted(consuming):
            instruction = program[pc].instruction
            if isinstance(instruction, revm.InstructionChar):
                ok = instruction.character == ch
            elif isinstance(instruction, revm.InstructionSet):
                ok = _in_ranges(instruction.ranges, ch)
            elif isinstance(instruction, revm.InstructionNotSet):
                ok = not _in_ranges(instruction.ranges, ch)
            elif isinstance(instruction, revm.InstructionAny):
                ok = True
            else:
                raise AssertionError(f"unexpected instruction {instruction!r}")
            if ok:
                threads.append(pc + 1)
        if not threads:
            return False
    _, matched = closure(threads, at_end=True)
    return matched


def structural_violations(program: Sequence[Any], case: Any) -> List[Violation]:
    from aas_core_codegen.intermediate import revm

    violations = []  # type: List[Violation]
    if len(program) == 0 or not isinstance(
        program[-1].instruction, revm.InstructionMatch
    ):
        violations.append(
            Violation("no-trailing-match", "program does not end with Match", case)
        )
    n_match = sum(
        1 for leaf in program if isinstance(leaf.instruction, revm.InstructionMatch)
    )
    if n_match != 1:
        violations.append(
            Violation("match-count", f"{n_match} Match instructions", case)
        )
    for index, leaf in enumerate(program):
        if leaf.label is not None and leaf.label != index:
            violations.append(
                Violation(
                    "label-not-index", f"label {leaf.label} at index {index}", case
                )
            )
        targets = []  # type: List[int]
        if isinstance(leaf.instruction, revm.InstructionJump):
            targets = [leaf.instruction.target]
        elif isinstance(leaf.instruction, revm.InstructionSplit):
            targets = [leaf.instruction.first_target, leaf.instruction.second_target]
        for target in targets:
            if not (0 <= target < len(program)):
                violations.append(
                    Violation("target-out-of-range", f"target {target}", case)
                )
            elif program[target].label != target:
                violations.append(
                    Violation(
                        "target-unlabelled",
                        f"target {target} has label {program[target].label}",
                        case,
                    )
                )
    return violations


def front_end_accepts(regex: Any) -> bool:
    """The anchoring rule of ``intermediate._translate`` (re-stated)."""
    from aas_core_codegen.parse import retree

    if len(regex.union.uniates) != 1:
        return False
    concatenants = regex.union.uniates[0].concatenants
    if len(concatenants) == 0:
        return False
    first, last = concatenants[0], concatenants[-1]
    return (
        isinstance(first.value, retree.Symbol)
        and first.value.kind is retree.SymbolKind.START
        and isinstance(last.value, retree.Symbol)
        and last.value.kind is retree.SymbolKind.END
    )


def _class_of(pattern: str) -> str:
    inner = pattern[1:-1]
    flags = []
    if "?" in inner and re.search(r"[*+?}]\?", inner):
        flags.append("non-greedy")
    if "^" in inner.replace("[^", "").replace("\\^", ""):
        flags.append("inner-start")
    return "+".join(flags) if flags else "plain"


def check_pattern(pattern: str, probe_len: int) -> Tuple[List[Violation], str]:
    from aas_core_codegen.intermediate import revm
    from aas_core_codegen.parse import retree

    case = {"pattern": pattern, "probe_len": probe_len}
    try:
        regex, error = retree.parse([pattern])
    except Exception:
        return [], "parse-crash(C16)"
    if error is not None:
        return [], "not-parsed"
    assert regex is not None
    if not front_end_accepts(regex):
        return [], "not-anchored"

    try:
        compiled = re.compile(pattern)
    except re.error:
        return [], "invalid-python(C16)"

    try:
        root = revm.translate(regex)
    except CaseTimeout:
        raise
    except Exception as exc:
        return (
            [
                Violation(
                    f"not-emitted:{_class_of(pattern)}:" + crash_signature(exc),
                    f"{pattern!r}: {short_exc(exc)[:160]}",
                    case,
                )
            ],
            "not-emitted",
        )

    program = flatten(root)
    violations = structural_violations(program, case)
    if violations:
        return violations, "malformed-program"

    matched = 0
    rejected = 0
    for probe in gen_re.probes(probe_alphabet(pattern), probe_len):
        expected = compiled.fullmatch(probe) is not None
        try:
            got = vm_match(program, probe)
        except (IndexError, AssertionError) as exc:
            violations.append(
                Violation(
                    "vm-error", f"{pattern!r} on {probe!r}: {short_exc(exc)}", case
                )
            )
            break
        if expected:
            matched += 1
        else:
            rejected += 1
        if expected != got:
            violations.append(
                Violation(
                    f"verdict-differs:{_class_of(pattern)}",
                    f"{pattern!r} on {probe!r}: re.fullmatch={expected} vm={got}",
                    case,
                )
            )
            break
    outcome = "agree-nontrivial" if matched and rejected else "agree-trivial"
    if violations:
        outcome = "differs"
    return violations, outcome


def worker_init() -> None:
    from aas_core_codegen.intermediate import revm  # noqa: F401


CPP_DRIVER = """
#include "dummy/pattern.hpp"
#include "dummy/revm.hpp"
#include <cstdio>
#include <iostream>
#include <string>
int main() {
  const std::vector<std::unique_ptr<dummy::revm::Instruction> >* programs[] = {
PROGRAMS
  };
  std::string line;
  while (std::getline(std::cin, line)) {
    std::wstring text(line.begin(), line.end());
    for (auto* program : programs) std::putchar(dummy::revm::Match(*program, text) ? '1' : '0');
    std::putchar('\\n');
  }
  return 0;
}
"""


def cpp_patterns(tier: str) -> List[str]:
    grammar = gen_re.Grammar(gen_re.LEAVES_BASIC + ["\\x61", "\\."], gen_re.QUANTIFIERS_BASIC + ["{2,}", "{0,2}"])
    result = []  # type: List[str]
    for body in grammar.patterns_up_to(CPP_K[tier]):
        if not body:
            continue
        result.append(f"^{body}$" if "|" not in body else f"^({body})$")
        result.append(f"^{body}.*$" if "|" not in body else f"^({body}).*$")
    return result


def explore_cpp_batch(patterns: List[str], result: Result, base: Any) -> None:
    """Generate the cpp target for a model with these pattern functions, compile, run."""
    import re
    import shutil

    from verif import exttools, sdk

    gxx = exttools.gxx()
    tl = exttools.cpp_shim_include()
    if gxx is None or tl is None or not (pathlib.Path(tl) / "tl" / "expected.hpp").exists():
        if "g++/tl-expected" not in result.skipped_tools:
            result.skipped_tools.append("g++/tl-expected")
        return
    text = "".join(
        f"@verification\ndef matches_{index}(text: str) -> bool:\n"
        f'    """Check that :paramref:`text` matches."""\n'
        f"    pattern = {pattern!r}\n    return match(pattern, text) is not None\n\n\n"
        for index, pattern in enumerate(patterns)
    ) + (
        'class Something(DBC):\n    """Represent something."""\n\n    text: str\n\n'
        "    def __init__(self, text: str) -> None:\n        self.text = text\n\n\n"
        '__version__ = "dummy"\n__xml_namespace__ = "https://dummy.com"\n'
    )
    shutil.rmtree(base, ignore_errors=True)
    try:
        rc, _, stderr, out = sdk.generate(text, "cpp", base, "Something")
    except Exception:
        rc, out = 1, None
    if rc != 0:
        if len(patterns) == 1:
            result.extra["cpp_patterns_not_generated"] = result.extra.get("cpp_patterns_not_generated", 0) + 1
            return
        middle = len(patterns) // 2
        explore_cpp_batch(patterns[:middle], result, base)
        explore_cpp_batch(patterns[middle:], result, base)
        return
    assert out is not None
    shim = base / "shim"
    shim.mkdir()
    (shim / "tl").symlink_to(pathlib.Path(tl) / "tl")
    programs = "\n".join(f"    &dummy::pattern::kMatches{index}Program," for index in range(len(patterns)))
    (out / "driver.cpp").write_text(CPP_DRIVER.replace("PROGRAMS", programs), encoding="utf-8")
    rc, _, stderr = exttools.run(
        [gxx, "-std=c++17", "-O0", "-w", "-I", str(out / "include"), "-I", str(shim),
         str(out / "src" / "pattern.cpp"), str(out / "src" / "revm.cpp"), str(out / "src" / "common.cpp"),
         str(out / "driver.cpp"), "-o", str(out / "driver")],
        timeout=2400,
    )
    if rc != 0:
        result.add_violation("cpp-matcher-does-not-compile", stderr[-300:], {"pattern": patterns[0], "cpp": True})
        return
    probes = [probe for probe in gen_re.probes(("a", "b", "c", "."), 4)]
    rc, stdout, stderr = exttools.run([str(out / "driver")], stdin="\n".join(probes) + "\n", timeout=600)
    lines = stdout.splitlines()
    if rc != 0 or len(lines) != len(probes):
        result.extra.setdefault("harness_errors", []).append(f"cpp matcher driver rc={rc} lines={len(lines)} {stderr[-120:]}")
        return
    compiled = [re.compile(pattern) for pattern in patterns]
    for index, pattern in enumerate(patterns):
        result.states += 1
        result.evaluations += 1
        matched_any = False
        for probe, line in zip(probes, lines):
            result.transitions += 1
            expected = compiled[index].fullmatch(probe) is not None
            matched_any = matched_any or expected
            if (line[index] == "1") != expected:
                result.add_violation(
                    "cpp-matcher-differs",
                    f"{pattern!r} on {probe!r}: re.fullmatch={expected}, compiled C++ VM={line[index] == '1'}",
                    {"pattern": pattern, "cpp": True, "probe": probe},
                )
                break
        else:
            result.outcomes.add("cpp-agrees")
            if matched_any:
                result.nontrivial += 1
    shutil.rmtree(base, ignore_errors=True)


def work(shard: Any) -> Result:
    tier = shard[0]
    probe_len = BOUNDS[tier]["probe_len"]
    result = Result()
    if shard[1] == "cpp":
        from verif.core import worker_tmp

        _, _, part, parts = shard
        mine = [p for number, p in enumerate(cpp_patterns(tier)) if number % parts == part]
        # only patterns for which a VM program exists (the others are known findings of
        # the emission clause); the quick tier takes every third of them
        mine = [p for p in mine if check_pattern(p, 1)[1].startswith("agree")]
        if tier == "quick":
            mine = mine[::3]
        for start in range(0, len(mine), CPP_BATCH):
            explore_cpp_batch(mine[start : start + CPP_BATCH], result, worker_tmp() / f"c18-cpp-{part}")
        return result
    for pattern in patterns_of_shard(shard):
        try:
            with time_limit(20):
                violations, outcome = check_pattern(pattern, probe_len)
        except CaseTimeout:
            result.timeouts += 1
            result.extra.setdefault("timeout_cases", []).append(pattern)
            continue
        result.states += 1
        result.outcomes.add(outcome)
        result.extra.setdefault("outcome_counts", {})
        result.extra["outcome_counts"][outcome] = (
            result.extra["outcome_counts"].get(outcome, 0) + 1
        )
        if outcome in ("not-parsed", "not-anchored", "parse-crash(C16)", "invalid-python(C16)"):
            continue
        result.evaluations += 1
        n_probes = len(gen_re.probes(probe_alphabet(pattern), probe_len))
        result.transitions += n_probes
        if outcome == "agree-nontrivial":
            result.nontrivial += 1
            if len(result.samples) < 1:
                result.samples.append({"pattern": pattern, "probes": n_probes})
        for v in violations:
            result.add_violation(v.signature, v.message, v.case)
    return result


def replay(case: Any) -> List[Violation]:
    if case.get("cpp"):
        from verif.core import worker_tmp

        result = Result()
        explore_cpp_batch([case["pattern"]], result, worker_tmp() / "c18-cpp-replay")
        return result.violations
    return check_pattern(case["pattern"], case.get("probe_len", 3))[0]
