"""
C17 — the UTF-16 rewriting of regular expressions preserves the language.

Patterns are built from a small AST around *boundary code points*; each is rendered to a
pattern string, pushed through the real ``jsonschema.main.fix_pattern_for_utf16`` and the
result is matched (Python ``re``) against the UTF-16 code-unit encoding of every probe
string.  A reference matcher with "code-unit semantics" over the same AST tells apart
divergences that are inherent to any UTF-16-unit engine (``.`` / complemented sets / BMP
ranges spanning the surrogate block consume one unit) from defects of the rewriting.
"""
from __future__ import annotations

import itertools
import re
import warnings
from typing import Any, Iterator, List, Optional, Sequence, Set, Tuple

from verif.core import (
    CaseTimeout,
    Result,
    Violation,
    crash_signature,
    short_exc,
    time_limit,
)

ID = "C17"

warnings.filterwarnings("ignore")

B = [
    0x61,
    0xD7FF,
    0xE000,
    0xFFFF,
    0x10000,
    0x10001,
    0x103FF,
    0x10400,
    0x10401,
    0x107FF,
    0x10800,
    0x10BFF,
    0x10FFFE,
    0x10FFFF,
]
B_SMALL = [0x61, 0xFFFF, 0x10000, 0x103FF, 0x10400, 0x10FFFF]

QUANTS = [None, (0, 1), (0, None), (1, None), (2, 2)]

META = {
    "technique": (
        "exhaustive enumeration of boundary-code-point patterns x contexts x quantifiers; "
        "real fix_pattern_for_utf16 output matched on UTF-16 unit strings of all probes "
        "vs Python re on the original; unit-semantics reference matcher classifies "
        "inherent divergences"
    ),
    "rule": (
        "atoms: literal b, [x-y] for all x <= y in B (14 boundary code points around the "
        "BMP/surrogate/plane edges), two-range and mixed BMP+astral sets over a 6-point "
        "subset, complemented BMP sets, dot; each spelled raw and with \\u/\\U escapes, "
        "with quantifier in {none, ?, *, +, {2}} and in the contexts X, Xa, aX, X|a, "
        "(X)(X); probes: every well-formed string of length <= 2 over B and the "
        "neighbours b-1, b+1 (no lone surrogates); non-trivial = the original pattern "
        "accepts >= 1 and rejects >= 1 probe; distinct by pattern text"
    ),
    "bounds": {
        "quick": "single ranges over all of B, two-range sets over a 4-point subset, contexts X, Xa, X|a; probe length <= 2",
        "thorough": "single ranges over all of B, two-range sets over the 6-point subset, all 5 contexts; probe length <= 2",
    },
    "assumptions": [
        "Python's re is the reference for the original pattern on code-point strings and "
        "the engine for the rewritten pattern on code-unit strings (lone code units as "
        "chr(unit))",
        "probe strings are well-formed (no lone surrogates): two different ill-formed "
        "strings can share one UTF-16 encoding, so the property is not meaningful there",
    ],
}

# --------------------------------------------------------------------------------------
# AST: ("lit", cp) ("dot",) ("set", neg, ((lo, hi), ...)) ("grp", union)
# term = (atom, quant) ; concat = (term, ...) ; union = (concat, ...)
# --------------------------------------------------------------------------------------


def esc(cp: int, raw: bool) -> str:
    if raw and cp not in (0x5B, 0x5D, 0x5C, 0x5E, 0x2D):
        return chr(cp)
    if cp < 0x100:
        return f"\\x{cp:02x}"
    if cp < 0x10000:
        return f"\\u{cp:04x}"
    return f"\\U{cp:08x}"


def render_atom(atom: Any, raw: bool) -> str:
    kind = atom[0]
    if kind == "lit":
        return esc(atom[1], raw)
    if kind == "dot":
        return "."
    if kind == "set":
        body = "".join(
            esc(lo, raw) if lo == hi else f"{esc(lo, raw)}-{esc(hi, raw)}"
            for lo, hi in atom[2]
        )
        return f"[{'^' if atom[1] else ''}{body}]"
    if kind == "grp":
        return "(" + render_union(atom[1], raw) + ")"
    raise AssertionError(kind)


def render_quant(quant: Any) -> str:
    if quant is None:
        return ""
    lo, hi = quant
    if (lo, hi) == (0, 1):
        return "?"
    if (lo, hi) == (0, None):
        return "*"
    if (lo, hi) == (1, None):
        return "+"
    if lo == hi:
        return f"{{{lo}}}"
    return f"{{{lo},{'' if hi is None else hi}}}"


def render_union(union: Any, raw: bool) -> str:
    return "|".join(
        "".join(render_atom(atom, raw) + render_quant(quant) for atom, quant in concat)
        for concat in union
    )


def utf16_units(text: str) -> List[int]:
    units = []  # type: List[int]
    for ch in text:
        cp = ord(ch)
        if cp >= 0x10000:
            units.append((cp - 0x10000) // 0x400 + 0xD800)
            units.append((cp - 0x10000) % 0x400 + 0xDC00)
        else:
            units.append(cp)
    return units


def _atom_step(atom: Any, units: Sequence[int], pos: int) -> Set[int]:
    """Reference *code-unit semantics* of one atom at ``pos``: set of end positions."""
    kind = atom[0]
    if kind == "lit":
        expected = utf16_units(chr(atom[1]))
        if list(units[pos : pos + len(expected)]) == expected:
            return {pos + len(expected)}
        return set()
    if pos >= len(units):
        return set()
    unit = units[pos]
    if kind == "dot":
        return {pos + 1} if unit != 0x0A else set()
    if kind == "set":
        neg, ranges = atom[1], atom[2]
        result = set()  # type: Set[int]
        if neg:
            if not any(lo <= unit <= hi for lo, hi in ranges):
                result.add(pos + 1)
            return result
        # one code unit against the BMP part of the ranges
        if any(lo <= unit <= min(hi, 0xFFFF) for lo, hi in ranges if lo <= 0xFFFF):
            result.add(pos + 1)
        # one surrogate pair against the astral part of the ranges
        if (
            0xD800 <= unit <= 0xDBFF
            and pos + 1 < len(units)
            and 0xDC00 <= units[pos + 1] <= 0xDFFF
        ):
            cp = 0x10000 + (unit - 0xD800) * 0x400 + (units[pos + 1] - 0xDC00)
            if any(max(lo, 0x10000) <= cp <= hi for lo, hi in ranges if hi >= 0x10000):
                result.add(pos + 2)
        return result
    raise AssertionError(kind)


def _match_union(union: Any, units: Sequence[int], pos: int) -> Set[int]:
    result = set()  # type: Set[int]
    for concat in union:
        positions = {pos}
        for atom, quant in concat:
            positions = _match_term(atom, quant, units, positions)
            if not positions:
                break
        result |= positions
    return result


def _match_once(atom: Any, units: Sequence[int], positions: Set[int]) -> Set[int]:
    result = set()  # type: Set[int]
    for pos in positions:
        if atom[0] == "grp":
            result |= _match_union(atom[1], units, pos)
        else:
            result |= _atom_step(atom, units, pos)
    return result


def _match_term(
    atom: Any, quant: Any, units: Sequence[int], positions: Set[int]
) -> Set[int]:
    if quant is None:
        return _match_once(atom, units, positions)
    lo, hi = quant
    current = set(positions)
    for _ in range(lo):
        current = _match_once(atom, units, current)
    result = set(current)
    count = lo
    while current and (hi is None or count < hi):
        nxt = _match_once(atom, units, current) - result
        if not nxt:
            break
        result |= nxt
        current = nxt
        count += 1
    return result


def model_fullmatch(union: Any, units: Sequence[int]) -> bool:
    return len(units) in _match_union(union, units, 0)


# --------------------------------------------------------------------------------------
# Space
# --------------------------------------------------------------------------------------


def atoms(tier: str) -> List[Any]:
    result = []  # type: List[Any]
    for cp in B:
        result.append(("lit", cp))
    result.append(("dot",))
    for i, lo in enumerate(B):
        for hi in B[i:]:
            result.append(("set", False, ((lo, hi),)))
            if hi <= 0xFFFF:
                result.append(("set", True, ((lo, hi),)))
    points = B_SMALL if tier == "thorough" else [0x61, 0xFFFF, 0x10000, 0x10FFFF]
    singles = [(lo, hi) for i, lo in enumerate(points) for hi in points[i:]]
    for first, second in itertools.combinations(singles, 2):
        if first[1] < second[0]:
            result.append(("set", False, (first, second)))
            result.append(("set", False, (second, first)))
    # a set with a non-boundary neighbour so that three-way splits occur
    result.append(("set", False, ((0x62, 0x7A), (0x10002, 0x10003))))
    return result


A_LIT = ("lit", 0x61)


def contexts(tier: str) -> List[str]:
    return ["X", "Xa", "X|a"] + (["aX", "(X)(X)"] if tier == "thorough" else [])


def build(atom: Any, quant: Any, context: str) -> Any:
    term = (atom, quant)
    if context == "X":
        return ((term,),)
    if context == "Xa":
        return ((term, (A_LIT, None)),)
    if context == "aX":
        return (((A_LIT, None), term),)
    if context == "X|a":
        return ((term,), ((A_LIT, None),))
    if context == "(X)(X)":
        group = ("grp", ((term,),))
        return (((group, None), (group, (0, 1))),)
    raise AssertionError(context)


def shards(tier: str) -> List[Any]:
    n_atoms = len(atoms(tier))
    return [(tier, index) for index in range(n_atoms)]


def probe_strings() -> List[str]:
    alphabet = []  # type: List[int]
    for cp in B:
        for candidate in (cp - 1, cp, cp + 1):
            if 0 < candidate <= 0x10FFFF and not (0xD800 <= candidate <= 0xDFFF):
                if candidate not in alphabet:
                    alphabet.append(candidate)
    result = [""]
    for cp in alphabet:
        result.append(chr(cp))
    for first in alphabet:
        for second in alphabet:
            result.append(chr(first) + chr(second))
    return result


_PROBES = None  # type: Optional[List[Tuple[str, List[int], str]]]


def probes() -> List[Tuple[str, List[int], str]]:
    global _PROBES
    if _PROBES is None:
        _PROBES = []
        for text in probe_strings():
            units = utf16_units(text)
            _PROBES.append((text, units, "".join(chr(u) for u in units)))
    return _PROBES


# --------------------------------------------------------------------------------------
# Oracle
# --------------------------------------------------------------------------------------


def _inherent_cause(union: Any) -> Optional[str]:
    causes = set()

    def visit_union(u: Any) -> None:
        for concat in u:
            for atom, _ in concat:
                if atom[0] == "dot":
                    causes.add("dot-vs-astral-input")
                elif atom[0] == "set":
                    if atom[1]:
                        causes.add("complement-vs-astral-input")
                    elif any(
                        lo <= 0xDFFF and hi >= 0xD800 for lo, hi in atom[2]
                    ):
                        causes.add("bmp-range-spans-surrogates")
                elif atom[0] == "grp":
                    visit_union(atom[1])

    visit_union(union)
    if not causes:
        return None
    return "+".join(sorted(causes))


def check_pattern(union: Any, raw: bool) -> Tuple[List[Violation], str]:
    from aas_core_codegen.jsonschema import main as jsonschema_main
    from aas_core_codegen.parse import retree

    pattern = render_union(union, raw)
    case = {"ast": union, "raw": raw, "pattern": pattern}

    try:
        regex, error = retree.parse([pattern])
    except Exception:
        return [], "parse-crash(C16)"
    if error is not None:
        return [], "not-accepted"

    try:
        original = re.compile(pattern)
    except re.error:
        return [], "invalid-python(C16)"

    try:
        fixed = jsonschema_main.fix_pattern_for_utf16(pattern)
    except CaseTimeout:
        raise
    except Exception as exc:
        return (
            [
                Violation(
                    "fix-crash:" + crash_signature(exc),
                    f"{pattern!r}: {short_exc(exc)[:200]}",
                    case,
                )
            ],
            "fix-crash",
        )

    try:
        rewritten = re.compile(fixed)
    except re.error as exc:
        return (
            [
                Violation(
                    "fixed-invalid-python",
                    f"{pattern!r} fixed as {fixed!r}: {exc}",
                    case,
                )
            ],
            "fixed-invalid",
        )

    violations = []  # type: List[Violation]
    seen_signatures = set()  # type: Set[str]
    matched = rejected = 0
    for text, units, unit_text in probes():
        expected = original.fullmatch(text) is not None
        got = rewritten.fullmatch(unit_text) is not None
        if expected:
            matched += 1
        else:
            rejected += 1
        if expected == got:
            continue
        cause = _inherent_cause(union)
        if cause is not None and model_fullmatch(union, units) == got:
            signature = f"inherent:{cause}"
        else:
            signature = "language-differs:" + (
                "astral" if any(ord(ch) > 0xFFFF for ch in text) else "bmp"
            ) + ("-input" )
        if signature in seen_signatures:
            continue
        seen_signatures.add(signature)
        violations.append(
            Violation(
                signature,
                (
                    f"{pattern!r} fixed as {fixed!r}; probe "
                    f"{text.encode('unicode_escape').decode()!r}: original={expected} "
                    f"fixed-on-units={got}"
                ),
                case,
            )
        )
    outcome = "agree-nontrivial" if matched and rejected else "agree-trivial"
    if violations:
        outcome = "differs"
    return violations, outcome


def worker_init() -> None:
    from aas_core_codegen.jsonschema import main as jsonschema_main  # noqa: F401

    probes()


def work(shard: Any) -> Result:
    tier, index = shard
    atom = atoms(tier)[index]
    result = Result()
    seen = set()  # type: Set[str]
    for quant in QUANTS:
        for context in contexts(tier):
            union = build(atom, quant, context)
            for raw in (False, True):
                pattern = render_union(union, raw)
                if pattern in seen:
                    continue
                seen.add(pattern)
                try:
                    with time_limit(30):
                        violations, outcome = check_pattern(union, raw)
                except CaseTimeout:
                    result.timeouts += 1
                    continue
                result.states += 1
                result.outcomes.add(outcome)
                result.extra.setdefault("outcome_counts", {})
                result.extra["outcome_counts"][outcome] = (
                    result.extra["outcome_counts"].get(outcome, 0) + 1
                )
                if outcome in ("not-accepted", "parse-crash(C16)", "invalid-python(C16)"):
                    continue
                result.evaluations += 1
                result.transitions += len(probes())
                if outcome == "agree-nontrivial":
                    result.nontrivial += 1
                    if len(result.samples) < 1 and index % 40 == 5:
                        result.samples.append(
                            {"pattern": pattern, "probes": len(probes())}
                        )
                for v in violations:
                    result.add_violation(v.signature, v.message, v.case)
    return result


def _tuplify(value: Any) -> Any:
    if isinstance(value, list):
        return tuple(_tuplify(item) for item in value)
    return value


def replay(case: Any) -> List[Violation]:
    return check_pattern(_tuplify(case["ast"]), case["raw"])[0]
