"""C19 — emitted literals denote exactly the original values."""
from __future__ import annotations

import ast
import itertools
import pathlib
import re
import shutil
from typing import Any, Callable, Dict, Iterator, List, Optional, Sequence, Tuple

from verif import exttools
from verif.core import Result, Violation, crash_signature, short_exc, worker_tmp

ID = "C19"

# The alphabet of G-STR: control characters, quotes, backslash, interpolation starters,
# hex digits and their non-hex neighbours (g, G), letters which follow a backslash in
# escapes (n, u, x), Latin-1 / BMP / astral boundaries, line separators, BOM.
ALPHABET = [
    "\x00", "\x01", "\a", "\b", "\t", "\n", "\v", "\f", "\r", "\x1b", "\x1f", " ",
    '"', "'", "\\", "$", "`", "{", "}", "%", "?",
    "a", "f", "g", "0", "9", "A", "F", "G", "n", "u", "x",
    "\x7f", "\x80", "\x85", "\xfe", "\xff", "\u0100", "\u2028", "\u2029", "\ufeff",
    "\uffff", "\U00010000", "\U0001F600", "\U0010FFFF",
]
assert len(set(ALPHABET)) == len(ALPHABET)

BYTE_ALPHABET = [0x00, 0x01, 0x0A, 0x22, 0x5C, 0x61, 0x7F, 0x80, 0xFF]

META = {
    "technique": (
        "exhaustive enumeration of all strings up to a length over a 45-character "
        "alphabet (and byte strings / single characters) through every literal function "
        "of every target; the emitted literal is decoded by the language's own "
        "compiler/interpreter (Python ast, node, javac+java, g++) or, for C# and Go, by a "
        "decoder written from the language specification, and compared with the original"
    ),
    "rule": (
        "strings: all of length <= n over the alphabet {NUL, 0x01, BEL, BS, TAB, LF, VT, "
        "FF, CR, ESC, 0x1f, space, \" ' \\ $ ` { } % ?, a f g 0 9 A F G n u x, 0x7f, "
        "0x80, 0x85, 0xfe, 0xff, U+0100, U+2028, U+2029, U+FEFF, U+FFFF, U+10000, "
        "U+1F600, U+10FFFF}; kinds: python string_literal (3 quotings x enclosing x "
        "curly duplication), python/cpp/typescript/golang bytes_literal, cpp "
        "wstring_literal, cpp string_literal (ASCII), cpp wchar_literal (every code "
        "point of the alphabet + U+0000..U+02FF + surrogate block ends), csharp, java, "
        "golang string_literal, typescript string_literal (quoted, template, with and "
        "without enclosing), and `needs_escaping` of every target (raw embedding must "
        "denote the text when it answers False); non-trivial = the text contains a "
        "character other than [a-zA-Z0-9 ]"
    ),
    "bounds": {
        "quick": "strings n<=2 (2 071 strings) per kind; byte strings of length <=2 over 9 byte values plus lengths 8, 9, 17",
        "thorough": "strings n<=3 (93 196 strings) per kind for in-process decoders, node, javac and g++; byte strings of length <=3 plus lengths 8, 9, 16, 17",
    },
    "assumptions": [
        "the C# and Go decoders are hand-written from the language specifications "
        "(C# 6.4.5.6 regular string literals; Go spec `interpreted string literals`) and "
        "are the trusted base for these two languages: no compiler is available",
        "C++ wide literals are judged on this platform (wchar_t = 32 bit, g++ -std=c++17)",
        "strings with lone surrogates are not Unicode strings and are outside the space "
        "(except for cpp wchar_literal, which documents them)",
        "a literal function which raises is read as `reports an error` and is counted "
        "as `refused`, not as a violation (lenient reading)",
    ],
}


# --------------------------------------------------------------------------------------
# The space
# --------------------------------------------------------------------------------------


def strings(max_len: int) -> Iterator[str]:
    for n in range(0, max_len + 1):
        for combo in itertools.product(ALPHABET, repeat=n):
            yield "".join(combo)


def byte_strings(tier: str) -> Iterator[bytes]:
    max_len = 2 if tier == "quick" else 3
    for n in range(0, max_len + 1):
        for combo in itertools.product(BYTE_ALPHABET, repeat=n):
            yield bytes(combo)
    for n in (8, 9, 17) if tier == "quick" else (8, 9, 16, 17):
        yield bytes((i * 37 + 1) % 256 for i in range(n))
        yield bytes([0] * n)
        yield bytes([255] * n)


def wchar_points() -> List[int]:
    points = set(ord(c) for c in ALPHABET)
    points |= set(range(0, 0x300))
    points |= {0xD7FF, 0xD800, 0xDBFF, 0xDC00, 0xDFFF, 0xE000, 0xFFFE, 0x10001, 0x10FFFE}
    return sorted(points)


STRING_KINDS = [
    "py:str:N:enc", "py:str:S:enc", "py:str:D:enc", "py:str:S:noenc", "py:str:D:noenc",
    "py:str:N:enc:curly", "py:str:S:enc:curly", "py:str:D:enc:curly",
    "py:str:S:noenc:curly", "py:str:D:noenc:curly",
    "py:needs", "py:needs:curly",
    "cs:str", "cs:needs",
    "go:str", "go:needs",
    "ts:quoted", "ts:quoted:noenc", "ts:template", "ts:template:noenc",
    "ts:needs", "ts:needs:template",
    "java:str", "java:needs",
    "cpp:wstr", "cpp:str", "cpp:needs",
]
OTHER_KINDS = ["py:bytes", "ts:bytes", "go:bytes", "cpp:bytes", "cpp:wchar"]

SLICES = {"quick": 1, "thorough": 8}


def shards(tier: str) -> List[Any]:
    result = []  # type: List[Any]
    for kind in STRING_KINDS:
        slices = SLICES[tier]
        if kind.startswith(("py:", "cs:", "go:")) and tier == "thorough":
            slices = 2
        for index in range(slices):
            result.append((kind, tier, index, slices))
    for kind in OTHER_KINDS:
        result.append((kind, tier, 0, 1))
    return result


# --------------------------------------------------------------------------------------
# Emitting
# --------------------------------------------------------------------------------------


def emit(kind: str, value: Any) -> Optional[str]:
    """
    The source text of a complete literal expression in the language of ``kind`` as the
    generator would write it, or None when ``needs_escaping`` says the text needs care.
    Exceptions of the literal functions propagate.
    """
    parts = kind.split(":")
    lang = parts[0]
    if lang == "py":
        from aas_core_codegen.python import common as c

        if parts[1] == "bytes":
            literal, multi = c.bytes_literal(value)
            assert multi == ("\n" in literal)
            return f"({literal})"
        curly = "curly" in parts
        if parts[1] == "needs":
            if c.needs_escaping(value, also_check_curly_brackets=curly):
                return None
            return ('f"' if curly else '"') + value + '"'
        quoting = {
            "N": None,
            "S": c.StringQuoting.SINGLE_QUOTES,
            "D": c.StringQuoting.DOUBLE_QUOTES,
        }[parts[2]]
        without = parts[3] == "noenc"
        literal = c.string_literal(
            value, quoting=quoting, without_enclosing=without, duplicate_curly_brackets=curly
        )
        if without:
            quote = "'" if parts[2] == "S" else '"'
            literal = quote + literal + quote
        return ("f" if curly else "") + literal
    if lang == "cs":
        from aas_core_codegen.csharp import common as c

        if parts[1] == "needs":
            return None if c.needs_escaping(value) else '"' + value + '"'
        return c.string_literal(value)
    if lang == "go":
        from aas_core_codegen.golang import common as c

        if parts[1] == "bytes":
            return c.bytes_literal(value)[0]
        if parts[1] == "needs":
            return None if c.needs_escaping(value) else '"' + value + '"'
        return c.string_literal(value)
    if lang == "java":
        from aas_core_codegen.java import common as c

        if parts[1] == "needs":
            return None if c.needs_escaping(value) else '"' + value + '"'
        return c.string_literal(value)
    if lang == "ts":
        from aas_core_codegen.typescript import common as c

        if parts[1] == "bytes":
            return c.bytes_literal(value)[0]
        template = "template" in parts
        quote = "`" if template else '"'
        if parts[1] == "needs":
            if c.needs_escaping(value, in_backticks=template):
                return None
            return quote + value + quote
        without = "noenc" in parts
        literal = c.string_literal(value, without_enclosing=without, in_backticks=template)
        return quote + literal + quote if without else literal
    if lang == "cpp":
        from aas_core_codegen.cpp import common as c

        if parts[1] == "bytes":
            return c.bytes_literal(value)[0]
        if parts[1] == "wchar":
            return c.wchar_literal(value)
        if parts[1] == "wstr":
            return c.wstring_literal(value)
        if parts[1] == "needs":
            return None if c.needs_escaping(value) else '"' + value + '"'
        return c.string_literal(value)
    raise ValueError(kind)


def expected_units(kind: str, value: Any) -> List[int]:
    """What the decoder of the language must report for the original value."""
    lang, what = kind.split(":")[0], kind.split(":")[1]
    if what == "bytes":
        return list(value)
    if what == "wchar":
        return [ord(value)]
    if lang in ("cs", "java", "ts"):  # UTF-16 code units
        data = value.encode("utf-16-le", "surrogatepass")
        return [data[i] | (data[i + 1] << 8) for i in range(0, len(data), 2)]
    if lang == "go":  # bytes of the UTF-8 encoding
        return list(value.encode("utf-8"))
    if lang == "cpp" and what in ("str", "needs"):  # narrow: bytes
        return list(value.encode("utf-8"))
    return [ord(c) for c in value]  # py, cpp wide: code points


# --------------------------------------------------------------------------------------
# Decoders
# --------------------------------------------------------------------------------------

Decoded = Optional[List[int]]  # None = rejected by the language


def decode_python(literal: str) -> Decoded:
    try:
        if literal.startswith("f"):
            value = eval(compile(literal, "<literal>", "eval"), {"__builtins__": {}}, {})
        else:
            value = ast.literal_eval(literal)
    except (SyntaxError, ValueError):
        return None
    if isinstance(value, bytes):
        return list(value)
    if not isinstance(value, str):
        return None
    return [ord(c) for c in value]


_HEX = "0123456789abcdefABCDEF"
_CS_NEWLINES = {"\r", "\n", "\x85", "\u2028", "\u2029"}
_CS_SIMPLE = {
    "'": 0x27, '"': 0x22, "\\": 0x5C, "0": 0, "a": 7, "b": 8, "f": 12, "n": 10,
    "r": 13, "t": 9, "v": 11,
}


def _utf16(point: int) -> List[int]:
    if point < 0x10000:
        return [point]
    point -= 0x10000
    return [0xD800 | (point >> 10), 0xDC00 | (point & 0x3FF)]


def decode_csharp(literal: str) -> Decoded:
    """Regular string literal of C# (ECMA-334 6.4.5.6) -> UTF-16 code units."""
    if len(literal) < 2 or literal[0] != '"' or literal[-1] != '"':
        return None
    body = literal[1:-1]
    out = []  # type: List[int]
    i = 0
    while i < len(body):
        ch = body[i]
        if ch == '"' or ch in _CS_NEWLINES:
            return None
        if ch != "\\":
            out.extend(_utf16(ord(ch)))
            i += 1
            continue
        if i + 1 >= len(body):
            return None
        esc = body[i + 1]
        if esc in _CS_SIMPLE:
            out.append(_CS_SIMPLE[esc])
            i += 2
        elif esc == "x":
            j = i + 2
            while j < len(body) and j < i + 6 and body[j] in _HEX:
                j += 1
            if j == i + 2:
                return None
            out.append(int(body[i + 2 : j], 16))
            i = j
        elif esc == "u":
            digits = body[i + 2 : i + 6]
            if len(digits) != 4 or any(d not in _HEX for d in digits):
                return None
            out.append(int(digits, 16))
            i += 6
        elif esc == "U":
            digits = body[i + 2 : i + 10]
            if len(digits) != 8 or any(d not in _HEX for d in digits):
                return None
            point = int(digits, 16)
            if point > 0x10FFFF:
                return None
            out.extend(_utf16(point))
            i += 10
        else:
            return None
    return out


_GO_SIMPLE = {"a": 7, "b": 8, "f": 12, "n": 10, "r": 13, "t": 9, "v": 11, "\\": 0x5C, '"': 0x22}
_OCT = "01234567"


def decode_go(literal: str) -> Decoded:
    """Interpreted string literal of Go -> bytes."""
    if len(literal) < 2 or literal[0] != '"' or literal[-1] != '"':
        return None
    body = literal[1:-1]
    out = []  # type: List[int]
    i = 0
    while i < len(body):
        ch = body[i]
        if ch == '"' or ch == "\n":
            return None
        if ch == "\x00" or ch == "\ufeff":
            # gc rejects NUL and a byte order mark inside of the source text
            return None
        if 0xD800 <= ord(ch) <= 0xDFFF:
            return None
        if ch != "\\":
            out.extend(ch.encode("utf-8"))
            i += 1
            continue
        if i + 1 >= len(body):
            return None
        esc = body[i + 1]
        if esc in _GO_SIMPLE:
            out.append(_GO_SIMPLE[esc])
            i += 2
        elif esc in _OCT:
            digits = body[i + 1 : i + 4]
            if len(digits) != 3 or any(d not in _OCT for d in digits):
                return None
            value = int(digits, 8)
            if value > 255:
                return None
            out.append(value)
            i += 4
        elif esc == "x":
            digits = body[i + 2 : i + 4]
            if len(digits) != 2 or any(d not in _HEX for d in digits):
                return None
            out.append(int(digits, 16))
            i += 4
        elif esc in "uU":
            width = 4 if esc == "u" else 8
            digits = body[i + 2 : i + 2 + width]
            if len(digits) != width or any(d not in _HEX for d in digits):
                return None
            point = int(digits, 16)
            if point > 0x10FFFF or 0xD800 <= point <= 0xDFFF:
                return None
            out.extend(chr(point).encode("utf-8"))
            i += 2 + width
        else:
            return None
    return out


_GO_BYTES_RE = re.compile(r"\A\[\.\.\.\]byte\s*\{(.*)\}\Z", re.S)


def decode_go_bytes(literal: str) -> Decoded:
    match = _GO_BYTES_RE.match(literal)
    if match is None:
        return None
    inner = match.group(1).strip()
    if inner == "":
        return []
    # A multi-line composite literal needs a trailing comma before the closing brace on
    # its own line; the generator writes ``\n}`` after the last element, which gofmt /
    # the Go parser reject ("missing ',' before newline in composite literal").
    if "\n" in match.group(1) and re.search(r"[^,\s]\s*\n\s*\Z", match.group(1)):
        return None
    out = []
    for item in inner.split(","):
        item = item.strip()
        if item == "":
            continue
        if not re.fullmatch(r"0x[0-9a-fA-F]{1,2}", item):
            return None
        out.append(int(item, 16))
    return out


def _parse_lines(stdout: str, count: int) -> Optional[List[List[int]]]:
    lines = stdout.split("\n")
    if lines and lines[-1] == "":
        lines.pop()
    if len(lines) != count:
        return None
    return [[int(tok) for tok in line.split()] for line in lines]


def _batch_node(literals: Sequence[str], base: pathlib.Path) -> Optional[List[List[int]]]:
    node = exttools.node_any()
    assert node is not None
    source = ["const A = ["]
    for literal in literals:
        source.append(literal + ",")
    source.append("];")
    source.append(
        "const out = [];\n"
        "for (const s of A) {\n"
        "  const u = [];\n"
        "  if (typeof s === 'string') { for (let i = 0; i < s.length; i++) u.push(s.charCodeAt(i)); }\n"
        "  else { for (const b of s) u.push(b); }\n"
        "  out.push(u.join(' '));\n"
        "}\n"
        "process.stdout.write(out.join('\\n') + '\\n');\n"
    )
    path = base / "batch.mjs"
    path.write_text("\n".join(source), encoding="utf-8")
    rc, stdout, _ = exttools.run([node, str(path)], cwd=base, timeout=300)
    if rc != 0:
        return None
    return _parse_lines(stdout, len(literals))


def _batch_java(literals: Sequence[str], base: pathlib.Path) -> Optional[List[List[int]]]:
    javac, java = exttools.javac(), exttools.java()
    assert javac is not None and java is not None
    source = ["public class Batch {", "  static final String[] A = new String[] {"]
    for literal in literals:
        source.append(literal + ",")
    source.append(
        "  };\n"
        "  public static void main(String[] args) {\n"
        "    StringBuilder sb = new StringBuilder();\n"
        "    for (String s : A) {\n"
        "      for (int i = 0; i < s.length(); i++) { sb.append((int) s.charAt(i)).append(' '); }\n"
        "      sb.append('\\n');\n"
        "    }\n"
        "    System.out.print(sb);\n"
        "  }\n"
        "}\n"
    )
    (base / "Batch.java").write_text("\n".join(source), encoding="utf-8")
    rc, _, _ = exttools.run(
        [javac, "-encoding", "UTF-8", "-nowarn", "-d", str(base), str(base / "Batch.java")],
        cwd=base,
        timeout=300,
    )
    if rc != 0:
        return None
    rc, stdout, _ = exttools.run(
        [java, "-Xshare:auto", "-XX:TieredStopAtLevel=1", "-cp", str(base), "Batch"],
        cwd=base,
        timeout=300,
    )
    if rc != 0:
        return None
    return _parse_lines(stdout, len(literals))


def _batch_cpp(kind: str) -> Callable[[Sequence[str], pathlib.Path], Optional[List[List[int]]]]:
    what = kind.split(":")[1]

    def run(literals: Sequence[str], base: pathlib.Path) -> Optional[List[List[int]]]:
        gxx = exttools.gxx()
        assert gxx is not None
        source = [
            "#include <cstdio>\n#include <cstdint>\n#include <string>\n#include <vector>\n"
            "#define W(x) std::wstring(x, sizeof(x) / sizeof(wchar_t) - 1)\n"
            "#define S(x) std::string(x, sizeof(x) - 1)\n"
            "static void pw(const std::wstring& s) { for (wchar_t c : s) std::printf(\"%lu \", (unsigned long)(std::uint32_t)c); std::printf(\"\\n\"); }\n"
            "static void ps(const std::string& s) { for (char c : s) std::printf(\"%u \", (unsigned)(unsigned char)c); std::printf(\"\\n\"); }\n"
            "static void pb(const std::vector<std::uint8_t>& v) { for (std::uint8_t b : v) std::printf(\"%u \", (unsigned)b); std::printf(\"\\n\"); }\n"
            "int main() {"
        ]
        for literal in literals:
            if what == "wstr":
                source.append(f"pw(W({literal}));")
            elif what in ("str", "needs"):
                source.append(f"ps(S({literal}));")
            elif what == "wchar":
                source.append(
                    f'std::printf("%lu\\n", (unsigned long)(std::uint32_t)({literal}));'
                )
            else:
                source.append(f"{{ std::vector<std::uint8_t> v = {literal}; pb(v); }}")
        source.append("return 0; }\n")
        (base / "batch.cpp").write_text("\n".join(source), encoding="utf-8")
        rc, _, _ = exttools.run(
            [gxx, "-std=c++17", "-O0", "-w", "-o", str(base / "batch"), str(base / "batch.cpp")],
            cwd=base,
            timeout=600,
        )
        if rc != 0:
            return None
        rc, stdout, _ = exttools.run([str(base / "batch")], cwd=base, timeout=120)
        if rc != 0:
            return None
        return _parse_lines(stdout, len(literals))

    return run


def decode_batch(
    runner: Callable[[Sequence[str], pathlib.Path], Optional[List[List[int]]]],
    literals: Sequence[str],
    base: pathlib.Path,
    stats: Dict[str, int],
) -> List[Decoded]:
    """Decode all literals with a compiler; bisect a batch which is rejected."""
    if not literals:
        return []
    stats["tool_runs"] = stats.get("tool_runs", 0) + 1
    decoded = runner(literals, base)
    if decoded is not None:
        return list(decoded)
    if len(literals) == 1:
        return [None]
    middle = len(literals) // 2
    return decode_batch(runner, literals[:middle], base, stats) + decode_batch(
        runner, literals[middle:], base, stats
    )


BATCH = 2000


def tool_for(kind: str) -> Optional[str]:
    lang = kind.split(":")[0]
    if lang == "ts":
        return "node" if exttools.node_any() else None
    if lang == "java":
        return "javac" if exttools.javac() and exttools.java() else None
    if lang == "cpp":
        return "g++" if exttools.gxx() else None
    return "in-process"


# --------------------------------------------------------------------------------------
# Work
# --------------------------------------------------------------------------------------


def values_of(kind: str, tier: str, index: int, slices: int) -> Iterator[Any]:
    what = kind.split(":")[1]
    if what == "bytes":
        yield from byte_strings(tier)
        return
    if what == "wchar":
        for point in wchar_points():
            yield chr(point)
        return
    max_len = 2 if tier == "quick" else 3
    ascii_only = kind in ("cpp:str", "cpp:needs")
    for number, text in enumerate(strings(max_len)):
        if number % slices != index:
            continue
        if ascii_only and any(ord(c) > 127 for c in text):
            continue
        yield text


def _show(value: Any) -> str:
    return ascii(value) if isinstance(value, str) else repr(value)


def judge(kind: str, value: Any, literal: str, decoded: Decoded) -> Optional[Violation]:
    case = {"kind": kind, "value": value if isinstance(value, str) else list(value)}
    if isinstance(value, str):
        case["value"] = [ord(c) for c in value]
        case["value_is_str"] = True
    expected = expected_units(kind, value)
    prefix = "needs-escaping:" if kind.split(":")[1] == "needs" else "literal:"
    if decoded is None:
        return Violation(
            f"{prefix}{kind}:rejected-by-language:{classify(value, kind)}",
            f"{kind}: literal {literal[:60]!r} for {_show(value)[:40]} is not accepted by the language",
            case,
        )
    if decoded != expected:
        return Violation(
            f"{prefix}{kind}:wrong-value:{classify(value, kind)}",
            f"{kind}: literal {literal[:60]!r} for {_show(value)[:40]} denotes {decoded[:8]} instead of {expected[:8]}",
            case,
        )
    return None


def classify(value: Any, kind: str) -> str:
    """A coarse class of the offending value (part of the signature)."""
    if not isinstance(value, str):
        return f"len{min(len(value), 9)}"
    classes = set()
    for i, ch in enumerate(value):
        point = ord(ch)
        nxt = value[i + 1] if i + 1 < len(value) else ""
        if point == 0:
            classes.add("NUL")
        elif point in (0x85, 0x2028, 0x2029):
            classes.add("unicode-newline")
        elif point in (10, 13):
            classes.add("newline")
        elif point < 32 or point == 0x7F:
            classes.add("control")
        elif ch in "\"'`":
            classes.add("quote")
        elif ch == "\\":
            classes.add("backslash")
        elif ch in "${}%?":
            classes.add("interpolation")
        elif point < 128:
            classes.add("hexdigit" if ch in _HEX else "ascii")
        elif point == 0xFEFF:
            classes.add("BOM")
        elif point < 256:
            classes.add("latin1")
        elif point < 0x10000:
            classes.add("bmp")
        else:
            classes.add("astral")
    if not classes:
        return "empty"
    return "+".join(sorted(classes))


def _case_key(violation: Violation) -> Tuple[str, str, Tuple[int, ...]]:
    kind = violation.case["kind"]
    failure = "rejected" if ":rejected-by-language:" in violation.signature else "wrong"
    return kind, failure, tuple(violation.case["value"])


def _contains(big: Tuple[int, ...], small: Tuple[int, ...]) -> bool:
    if len(small) >= len(big):
        return False
    return any(big[i : i + len(small)] == small for i in range(0, len(big) - len(small) + 1))


def finish(agg: Result, tier: str) -> None:
    """
    Keep only minimal witnesses: a violating value which contains a shorter violating
    value of the same kind and failure type is subsumed by it (enumeration is
    shortest-first, so the minimal ones are always among the recorded witnesses).
    """
    keys = [_case_key(v) for v in agg.violations]
    kept = []
    for violation, key in zip(agg.violations, keys):
        subsumed = any(
            other[0] == key[0] and other[1] == key[1] and _contains(key[2], other[2])
            for other in keys
        )
        if not subsumed:
            kept.append(violation)
    agg.extra["subsumed_violation_witnesses"] = len(agg.violations) - len(kept)
    agg.violations = kept


def work(shard: Any) -> Result:
    kind, tier, index, slices = shard
    result = Result()
    tool = tool_for(kind)
    if tool is None:
        result.skipped_tools.append(kind.split(":")[0])
        return result
    base = worker_tmp() / f"c19-{kind.replace(':', '_')}-{index}"
    base.mkdir(parents=True, exist_ok=True)
    stats = {}  # type: Dict[str, int]
    try:
        pending = []  # type: List[Tuple[Any, str]]

        def flush() -> None:
            if not pending:
                return
            literals = [literal for _, literal in pending]
            lang = kind.split(":")[0]
            if lang == "py":
                decoded = [decode_python(literal) for literal in literals]
            elif lang == "cs":
                decoded = [decode_csharp(literal) for literal in literals]
            elif kind == "go:bytes":
                decoded = [decode_go_bytes(literal) for literal in literals]
            elif lang == "go":
                decoded = [decode_go(literal) for literal in literals]
            elif lang == "ts":
                decoded = decode_batch(_batch_node, literals, base, stats)
            elif lang == "java":
                decoded = decode_batch(_batch_java, literals, base, stats)
            else:
                decoded = decode_batch(_batch_cpp(kind), literals, base, stats)
            for (value, literal), units in zip(pending, decoded):
                result.evaluations += 1
                result.transitions += 1
                violation = judge(kind, value, literal, units)
                if violation is None:
                    result.outcomes.add(f"{kind.split(':')[0]}:ok")
                else:
                    result.outcomes.add(violation.signature)
                    result.add_violation(violation.signature, violation.message, violation.case)
            pending.clear()

        for value in values_of(kind, tier, index, slices):
            result.states += 1
            if not isinstance(value, str) or re.search(r"[^a-zA-Z0-9 ]", value):
                result.nontrivial += 1
            try:
                literal = emit(kind, value)
            except Exception as exc:
                result.extra.setdefault("refused", {})
                key = f"{kind}|{crash_signature(exc)[:90]}"
                result.extra["refused"][key] = result.extra["refused"].get(key, 0) + 1
                result.outcomes.add(f"{kind.split(':')[0]}:refused")
                continue
            if literal is None:
                result.extra["needs_escaping_true"] = result.extra.get("needs_escaping_true", 0) + 1
                continue
            pending.append((value, str(literal)))
            if len(result.samples) < 1 and isinstance(value, str) and len(value) == 2 and "\\" in value:
                result.samples.append({"kind": kind, "value": ascii(value), "literal": ascii(str(literal))})
            if len(pending) >= BATCH:
                flush()
        flush()
        result.extra["tool_runs"] = stats.get("tool_runs", 0)
    finally:
        shutil.rmtree(base, ignore_errors=True)
    return result


def replay(case: Any) -> List[Violation]:
    kind = case["kind"]
    if case.get("value_is_str"):
        value = "".join(chr(p) for p in case["value"])  # type: Any
    else:
        value = bytes(case["value"])
    base = worker_tmp() / "c19-replay"
    base.mkdir(parents=True, exist_ok=True)
    try:
        try:
            literal = emit(kind, value)
        except Exception:
            return []
        if literal is None:
            return []
        literal = str(literal)
        lang = kind.split(":")[0]
        stats = {}  # type: Dict[str, int]
        if lang == "py":
            decoded = decode_python(literal)
        elif lang == "cs":
            decoded = decode_csharp(literal)
        elif kind == "go:bytes":
            decoded = decode_go_bytes(literal)
        elif lang == "go":
            decoded = decode_go(literal)
        elif lang == "ts":
            decoded = decode_batch(_batch_node, [literal], base, stats)[0]
        elif lang == "java":
            decoded = decode_batch(_batch_java, [literal], base, stats)[0]
        else:
            decoded = decode_batch(_batch_cpp(kind), [literal], base, stats)[0]
        violation = judge(kind, value, literal, decoded)
        return [violation] if violation is not None else []
    finally:
        shutil.rmtree(base, ignore_errors=True)
