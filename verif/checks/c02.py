"""C02 — the generators never crash on accepted meta-models."""
from __future__ import annotations

import io
import os
import shutil
from typing import Any, Iterator, List, Optional, Tuple

from verif import gen_dev, gen_mm, harness, stream
from verif.core import (
    CaseTimeout,
    Result,
    Violation,
    crash_signature,
    short_exc,
    time_limit,
    worker_tmp,
)

ID = "C02"

META = {
    "technique": (
        "exhaustive enumeration of the front-end-accepted part of the single-deviation "
        "stream and of all property-shape models, each run through all 8 targets and "
        "the smoke tool; oracle: exit 0 with output, or non-zero with stderr, never an "
        "exception"
    ),
    "rule": (
        "every d=1 mutant (same stream as C01) which the front end accepts x 8 targets "
        "+ smoke.main.execute, with the seed's snippets (repository's own or "
        "synthesised); plus one model per property shape {bool,int,float,str,bytearray, "
        "enum, constrained str/int, concrete class, abstract class, class with "
        "descendants} x {plain, Optional, List, Optional[List]} and one with all "
        "shapes; plus pattern models for every regex of a menu / every raw regex string "
        "up to a length; non-trivial = (model, target) executions which generated code "
        "(exit 0); distinct by (model text, target)"
    ),
    "bounds": {
        "quick": "stream d=1 reduced menus over the 8 common seeds (kitchen sink only in thorough); 53 shape models (incl. an abstract class without descendants, a constrained bytearray); regex strings L<=2",
        "thorough": "stream d=1 full menus; shape models; regex strings L<=3",
    },
    "assumptions": [
        "`reports the problem` = non-zero return with non-empty stderr",
        "snippets: a mutated seed is generated with the snippets of its seed; missing "
        "implementation-specific snippets are legitimately reported as errors",
    ],
}

TARGETS = harness.TARGETS


def shards(tier: str) -> List[Any]:
    result = [
        ("dev",) + shard
        for shard in stream.shards(tier)
        if not (
            tier == "quick"
            and shard[0] == "kitchen_sink"
            and os.environ.get("VERIF_C02_KITCHEN") != "1"
        )
    ]
    for index in range(12):
        result.append(("shapes", index, 12))
    for index in range(8):
        result.append(("regex", tier, index, 8))
    # the constraint models of C15 (length / pattern / constant-set invariants on a
    # class, its parent and its constrained primitives): input of the schema generators
    families = ["sets", "patterns", "unrecognised", "len-primitives"]
    if tier == "thorough":
        families += ["len-parent-child", "len-pairs"]
    for family in families:
        slices = 16 if family.startswith("len-p") and family != "len-primitives" else 4
        for index in range(slices):
            result.append(("constraints", family, index, slices))
    return result


def cases_of_shard(shard: Any) -> Iterator[Tuple[Any, str, str]]:
    """Yield (info, seed for snippets, text)."""
    from verif.checks import c01

    if shard[0] == "dev":
        _, seed, menu, index, slices = shard
        for descriptor, text in gen_dev.mutants_of_shard(seed, menu, index, slices):
            yield {"seed": seed, "deviation": descriptor}, seed, text
    elif shard[0] == "constraints":
        from verif.checks import c15

        _, family, index, slices = shard
        arg = {"len-primitives": False, "len-parent-child": "str", "len-pairs": "str"}.get(family)
        for number, case in enumerate(c15.cases_of_family(family, arg)):
            if number % slices == index:
                yield {"constraints": case["family"], "spec": case["spec"]}, "@Parent", c15.render_model(case["spec"])
    elif shard[0] == "shapes":
        _, index, slices = shard
        for number, (info, text) in enumerate(gen_mm.shape_models()):
            if number % slices == index:
                yield {"shape": info}, "@Holder", text
    else:
        for info, text in c01.cases_of_shard(shard):
            yield info, "@Something", text


def run_smoke(model_path: Any) -> Tuple[Optional[int], str, Optional[BaseException]]:
    from aas_core_codegen.smoke import main as smoke_main

    stderr = io.StringIO()
    try:
        rc = smoke_main.execute(model_path=model_path, stderr=stderr)
    except Exception as exc:
        return None, stderr.getvalue(), exc
    return rc, stderr.getvalue(), None


def check_text(text: str, seed: str, info: Any) -> Tuple[List[Violation], int, int]:
    """Returns (violations, number of executions, number which generated code)."""
    base = worker_tmp() / "c02"
    case = {"text": text, "seed": seed, "info": info}
    violations = []  # type: List[Violation]
    executions = 0
    generated = 0
    try:
        model_path = stream.write_model(base, text)
        observation = stream.load(model_path)
        if observation.stage != "accepted":
            if isinstance(info, dict) and ("shape" in info or "constraints" in info):
                # the constructive models are meant to be accepted: a rejection would make
                # this part of the space vacuous without anybody noticing
                raise AssertionError(
                    f"constructive model rejected ({info}): {(observation.error or '')[-200:]}"
                )
            return [], 0, 0
        assert observation.result is not None
        symbol_table, atok = observation.result
        for target in TARGETS:
            if seed.startswith("@"):
                snippets = harness.synth_snippets(target, base / f"sn-{target}", seed[1:])
            else:
                snippets = stream.snippets_for(seed, target, worker_tmp() / "c02-snippets")
            out = base / f"out-{target}"
            executions += 1
            try:
                rc, stdout, stderr = harness.execute_target(
                    symbol_table, atok, model_path, target, snippets, out
                )
            except Exception as exc:
                violations.append(
                    Violation(
                        f"{target}-crash:" + crash_signature(exc),
                        f"{target}: {short_exc(exc)[:200]}",
                        case,
                    )
                )
                continue
            if rc == 0:
                generated += 1
                if not any(out.rglob("*")):
                    violations.append(
                        Violation(f"{target}-exit-0-without-output", "no file written", case)
                    )
            elif len(stderr.strip()) == 0:
                violations.append(
                    Violation(
                        f"{target}-silent-failure", f"rc={rc} with empty stderr", case
                    )
                )
            shutil.rmtree(out, ignore_errors=True)

        executions += 1
        rc, stderr, exc = run_smoke(model_path)
        if exc is not None:
            violations.append(
                Violation(
                    "smoke-crash:" + crash_signature(exc),
                    f"smoke: {short_exc(exc)[:200]}",
                    case,
                )
            )
        elif rc == 0:
            generated += 1
        elif len(stderr.strip()) == 0:
            violations.append(
                Violation("smoke-silent-failure", f"rc={rc} with empty stderr", case)
            )
        return violations, executions, generated
    finally:
        shutil.rmtree(base, ignore_errors=True)


def work(shard: Any) -> Result:
    result = Result()
    for info, seed, text in cases_of_shard(shard):
        try:
            with time_limit(120):
                violations, executions, generated = check_text(text, seed, info)
        except CaseTimeout:
            result.timeouts += 1
            continue
        result.states += 1
        if executions == 0:
            result.outcomes.add("not-accepted")
            continue
        result.evaluations += executions
        result.transitions += executions
        result.nontrivial += generated
        result.outcomes.add(f"generated={generated}/{executions}")
        for v in violations:
            result.add_violation(v.signature, v.message, v.case)
        if len(result.samples) < 1 and generated >= 8:
            result.samples.append({"info": info, "generated": generated})
    return result


def replay(case: Any) -> List[Violation]:
    return check_text(case["text"], case["seed"], case.get("info"))[0]
