"""
C23 — model caching is opt-in and transparent.

Part 1 (histories): explicit-state breadth-first search over the *persistent* state of
the cache protocol -- (text in the model file, cache directory listing) -- where each
transition is one real CLI run (``main.main`` with a patched ``sys.argv``) or one edit of
the model file.  Every reachable state is expanded with every operation.

Part 2 (pickle transparency): for every seed model the symbol table is round-tripped
through pickle and compared (attribute graph isomorphism incl. the id()-keyed sets, and
byte-identical output of every target).
"""
from __future__ import annotations

import ast
import collections
import enum
import hashlib
import os
import pathlib
import pickle
import shutil
import sys
import tempfile
import types
from typing import Any, Dict, List, Optional, Set, Tuple

from verif import harness
from verif.core import Result, Violation, crash_signature, short_exc, worker_tmp

ID = "C23"

META = {
    "technique": (
        "explicit-state BFS over cache-protocol states with real CLI runs as "
        "transitions (audit hook on file-system events, uncached reference runs); "
        "exhaustive pickle round-trip comparison of seed symbol tables"
    ),
    "rule": (
        "state = (model text at path p in {A, B, C(rejected)}, cache directory listing "
        "with content hashes); operations = run(path in {p, q(always text A)}, cache "
        "in {off, on}, target in {jsonschema, python}) and edit(p := A | B | C); BFS "
        "until no new state (depth cap D); every transition is checked against the "
        "uncached reference run of the same text; plus per (seed model, target) pickle "
        "round-trip transparency, and the round-trip of every generated 3-class "
        "hierarchy (all DAGs x abstract masks x ownership x model-type placements); "
        "non-trivial = transitions that ran the generator / hierarchies with an edge"
    ),
    "bounds": {
        "quick": "all reachable states, depth cap D=4 (fixed point reached earlier), 11 operations per state; pickle round-trip for 8 seed models x 7 targets",
        "thorough": "as quick with depth cap D=6 and a CLI-subprocess replay of every transition of depth <= 2; pickle round-trip also for aas_core_meta.v3 x 8 targets",
    },
    "assumptions": [
        "the only state persisting between runs (separate processes in real use) is "
        "the file system: model files, cache directory, output directory",
        "the audit hook sees every open/mkdir/rename/remove (CPython audit events)",
    ],
}

TEXT_NAMES = {"A": "enum", "B": "list_of_primitives"}
TARGETS = ["jsonschema", "python"]


def texts() -> Dict[str, str]:
    result = {
        name: harness.seed_model_path(seed).read_text(encoding="utf-8")
        for name, seed in TEXT_NAMES.items()
    }
    # C: rejected by the front end (a property re-declared in a descendant)
    result["C"] = result["A"].replace(
        "class Something:", "class Something(Unknown_parent):"
    )
    return result


# --------------------------------------------------------------------------------------
# Audit hook (installed once per process; it can not be removed)
# --------------------------------------------------------------------------------------

_AUDIT = {"enabled": False, "events": []}  # type: Dict[str, Any]
_AUDIT_INSTALLED = False


def _audit(event: str, args: Any) -> None:
    if not _AUDIT["enabled"]:
        return
    if event == "open":
        path, mode, flags = args
        if isinstance(path, (str, bytes, os.PathLike)):
            write = isinstance(flags, int) and bool(
                flags & (os.O_WRONLY | os.O_RDWR | os.O_CREAT | os.O_TRUNC | os.O_APPEND)
            )
            _AUDIT["events"].append(("open-w" if write else "open-r", os.fsdecode(path)))
    elif event in ("os.mkdir", "os.remove", "os.rmdir", "os.rename", "os.listdir", "os.scandir", "os.truncate"):
        path = args[0]
        if isinstance(path, (str, bytes, os.PathLike)):
            _AUDIT["events"].append((event, os.fsdecode(path)))
        if event == "os.rename" and isinstance(args[1], (str, bytes, os.PathLike)):
            _AUDIT["events"].append((event, os.fsdecode(args[1])))


def install_audit() -> None:
    global _AUDIT_INSTALLED
    if not _AUDIT_INSTALLED:
        sys.addaudithook(_audit)
        _AUDIT_INSTALLED = True


# --------------------------------------------------------------------------------------
# Part 1: histories
# --------------------------------------------------------------------------------------

OPS = [("run", path, cache, target) for path in ("p", "q") for cache in (False, True) for target in TARGETS] + [
    ("edit", "A"),
    ("edit", "B"),
    ("edit", "C"),
]


class World:
    """The persistent state: model files + cache dir, in a scratch directory."""

    def __init__(self, base: pathlib.Path) -> None:
        import aas_core_codegen

        self.base = base
        self.texts = texts()
        self.tmp = base / "tmp"
        self.cache_dir = self.tmp / f"aas-core-codegen-{aas_core_codegen.__version__}"
        self.models = base / "models"
        self.out_root = base / "out"
        self.counter = 0
        self.references = {}  # type: Dict[Tuple[str, str], Any]

    def reset(self) -> None:
        for path in (self.tmp, self.models, self.out_root):
            shutil.rmtree(path, ignore_errors=True)
            path.mkdir(parents=True)
        (self.models / "p.py").write_text(self.texts["A"], encoding="utf-8")
        (self.models / "q.py").write_text(self.texts["A"], encoding="utf-8")
        self.p_text = "A"

    def listing(self) -> Tuple[Tuple[str, str], ...]:
        if not self.cache_dir.is_dir():
            return ()
        return tuple(
            (name, hashlib.sha256((self.cache_dir / name).read_bytes()).hexdigest()[:12])
            for name in sorted(os.listdir(self.cache_dir))
        )

    def state(self) -> Any:
        return (self.p_text, self.listing())

    def snippets(self, text_name: str, target: str) -> pathlib.Path:
        seed = TEXT_NAMES["A" if text_name == "C" else text_name]
        path = harness.repo_snippets_dir(target, seed)
        assert path is not None
        return path

    def run_cli(self, model: pathlib.Path, text_name: str, cache: bool, target: str, tmp: pathlib.Path) -> Any:
        """One generator run through ``main.main``; returns the observation."""
        self.counter += 1
        out = self.out_root / f"o{self.counter}"
        argv = [
            "--model_path", str(model),
            "--snippets_dir", str(self.snippets(text_name, target)),
            "--output_dir", str(out),
            "--target", target,
        ]
        if cache:
            argv.append("--cache_model")
        with harness.private_tempdir(tmp):
            _AUDIT["events"] = []
            _AUDIT["enabled"] = True
            try:
                rc, stdout, stderr = harness.run_cli_in_process(argv)
            finally:
                _AUDIT["enabled"] = False
        events = list(_AUDIT["events"])
        files = harness.read_tree(out)
        shutil.rmtree(out, ignore_errors=True)
        return {
            "rc": rc,
            "stdout": stdout.replace(str(out), "<out>"),
            "stderr": stderr.replace(str(model), "<model>"),
            "files": files,
            "events": events,
            "out": str(out),
        }

    def reference(self, text_name: str, target: str) -> Any:
        """Uncached run of the text with an empty private temp dir."""
        key = (text_name, target)
        if key not in self.references:
            ref_dir = self.base / "ref"
            shutil.rmtree(ref_dir, ignore_errors=True)
            ref_dir.mkdir()
            model = ref_dir / "model.py"
            model.write_text(self.texts[text_name], encoding="utf-8")
            observation = self.run_cli(model, text_name, False, target, ref_dir / "tmp")
            observation["stderr"] = observation["stderr"]
            self.references[key] = observation
        return self.references[key]


def apply_op(world: World, op: Any) -> Tuple[List[Violation], Optional[str]]:
    """Apply one operation to the world; return violations and the outcome class."""
    case_op = list(op)
    if op[0] == "edit":
        (world.models / "p.py").write_text(world.texts[op[1]], encoding="utf-8")
        world.p_text = op[1]
        return [], None

    _, path_name, cache, target = op
    text_name = world.p_text if path_name == "p" else "A"
    model = world.models / f"{path_name}.py"
    before = world.listing()
    observation = world.run_cli(model, text_name, cache, target, world.tmp)
    after = world.listing()
    reference = world.reference(text_name, target)

    violations = []  # type: List[Tuple[str, str]]

    # (i) transparency
    for field in ("rc", "stdout", "stderr"):
        if observation[field] != reference[field]:
            violations.append(
                (
                    f"differs-from-uncached:{field}",
                    f"{field}: {str(observation[field])[:120]!r} != "
                    f"{str(reference[field])[:120]!r}",
                )
            )
    if observation["files"] != reference["files"]:
        changed = sorted(
            name
            for name in set(observation["files"]) | set(reference["files"])
            if observation["files"].get(name) != reference["files"].get(name)
        )
        violations.append(
            ("differs-from-uncached:files", f"output files differ: {changed[:5]}")
        )

    cache_root = str(world.tmp)
    out_root = observation["out"]
    if not cache:
        # (ii) no cache access, no write outside the output directory
        for event, path in observation["events"]:
            if path.startswith(cache_root):
                violations.append(
                    ("cache-touched-without-flag", f"{event} on {path} without --cache_model")
                )
                break
        for event, path in observation["events"]:
            if event in ("open-r", "os.listdir", "os.scandir"):
                continue
            absolute = os.path.abspath(path)
            if not absolute.startswith(out_root) and not absolute.startswith("/dev/"):
                violations.append(
                    ("write-outside-output-dir", f"{event} on {path}")
                )
                break
        if before != after:
            violations.append(
                ("cache-changed-without-flag", f"cache listing {before} -> {after}")
            )
    else:
        # (iii) exactly the entries of the accepted texts
        expected = dict(before)
        accepted = reference["rc"] == 0 or "Failed to" not in reference["stderr"][:60]
        front_end_ok = not reference["stderr"].startswith(
            ("Failed to parse", "Failed to construct", "Failed to translate", "One or more unexpected imports")
        )
        entry = "model-" + hashlib.sha256(world.texts[text_name].encode()).hexdigest() + ".pickle"
        names_after = [name for name, _ in after]
        if front_end_ok:
            if entry not in names_after:
                violations.append(
                    ("cache-entry-missing", f"{entry} not written with --cache_model")
                )
        else:
            if entry in names_after:
                violations.append(
                    ("cache-entry-for-rejected-model", f"{entry} written for a rejected model")
                )
        allowed = {name for name, _ in before} | {entry}
        for name in names_after:
            if name not in allowed:
                violations.append(
                    ("unexpected-cache-file", f"{name} appeared in the cache directory")
                )
        for name, digest in before:
            if dict(after).get(name) != digest:
                violations.append(
                    ("cache-entry-rewritten", f"{name} changed or vanished")
                )

    outcome = f"rc={observation['rc']},cache={'on' if cache else 'off'},hit={entry_hit(before, world, text_name) if cache else '-'}"
    return (
        [Violation(sig, msg, None) for sig, msg in violations],
        outcome,
    )


def entry_hit(before: Any, world: World, text_name: str) -> bool:
    entry = "model-" + hashlib.sha256(world.texts[text_name].encode()).hexdigest() + ".pickle"
    return entry in {name for name, _ in before}


def explore_histories(tier: str, base: pathlib.Path) -> Result:
    install_audit()
    result = Result()
    depth_cap = 4 if tier == "quick" else 6
    world = World(base)
    world.reset()
    initial = world.state()
    seen = {initial}
    frontier = collections.deque([[]])  # type: Any
    max_depth = 0
    while frontier:
        history = frontier.popleft()
        if len(history) >= depth_cap:
            result.caps_hit.append(f"depth cap {depth_cap} reached with unexplored states")
            continue
        for op in OPS:
            # Rebuild the state by replaying the history on a fresh world
            world.reset()
            for past in history:
                apply_op(world, past)
            violations, outcome = apply_op(world, op)
            result.transitions += 1
            if outcome is not None:
                result.evaluations += 1
                result.nontrivial += 1
                result.outcomes.add(outcome)
            for violation in violations:
                violation.case = {"kind": "history", "ops": [list(o) for o in history + [op]]}
                result.add_violation(violation.signature, violation.message, violation.case)
            state = world.state()
            if state not in seen:
                seen.add(state)
                frontier.append(history + [op])
                max_depth = max(max_depth, len(history) + 1)
                if len(result.samples) < 3:
                    result.samples.append(
                        {"history": [list(o) for o in history + [op]], "state": [state[0], [n[:18] for n, _ in state[1]]]}
                    )
    result.states = len(seen)
    result.extra["max_depth_with_new_state"] = max_depth
    return result


# --------------------------------------------------------------------------------------
# Part 2: pickle transparency
# --------------------------------------------------------------------------------------

_ATOMS = (str, bytes, int, float, bool, type(None), complex)


def graph_differences(first: Any, second: Any, limit: int = 5) -> List[str]:
    """Lock-step walk over two object graphs; report where they are not isomorphic."""
    differences = []  # type: List[str]
    mapping = {}  # type: Dict[int, int]
    id_sets = []  # type: List[Tuple[str, Any, Any]]
    stack = [("root", first, second)]
    while stack and len(differences) < limit:
        path, a, b = stack.pop()
        if type(a) is not type(b):
            differences.append(f"{path}: type {type(a).__name__} vs {type(b).__name__}")
            continue
        if isinstance(a, _ATOMS):
            if a != b and not (isinstance(a, float) and a != a and b != b):
                differences.append(f"{path}: {a!r} vs {b!r}")
            continue
        if isinstance(a, enum.Enum) or isinstance(a, (type, types.FunctionType, types.ModuleType, types.BuiltinFunctionType)):
            if a is not b:
                differences.append(f"{path}: {a!r} vs {b!r}")
            continue
        if id(a) in mapping:
            if mapping[id(a)] != id(b):
                differences.append(f"{path}: aliasing differs")
            continue
        mapping[id(a)] = id(b)
        if type(a).__module__.startswith("docutils"):
            # Third-party document trees: compare what they denote, not their
            # (pickling-dependent) internal bookkeeping.
            if hasattr(a, "pformat") and a.pformat() != b.pformat():
                differences.append(f"{path}: docutils trees differ")
            continue
        if isinstance(a, (list, tuple)):
            if len(a) != len(b):
                differences.append(f"{path}: length {len(a)} vs {len(b)}")
                continue
            for index, (x, y) in enumerate(zip(a, b)):
                stack.append((f"{path}[{index}]", x, y))
        elif isinstance(a, (set, frozenset)):
            if all(isinstance(item, int) and not isinstance(item, bool) for item in a) and (
                "id" in path.rsplit(".", 1)[-1]
            ):
                id_sets.append((path, a, b))
            elif all(isinstance(item, _ATOMS) for item in a) and all(isinstance(item, _ATOMS) for item in b):
                if a != b:
                    differences.append(f"{path}: set {sorted(map(repr, a))[:5]} vs {sorted(map(repr, b))[:5]}")
            else:
                if len(a) != len(b):
                    differences.append(f"{path}: set size {len(a)} vs {len(b)}")
        elif isinstance(a, dict):
            if len(a) != len(b):
                differences.append(f"{path}: dict size {len(a)} vs {len(b)}")
                continue
            keys_a, keys_b = list(a.keys()), list(b.keys())
            if all(isinstance(key, _ATOMS) for key in keys_a) and "id" not in path.rsplit(".", 1)[-1]:
                if keys_a != keys_b:
                    differences.append(f"{path}: dict keys/order differ")
                    continue
                for key in keys_a:
                    stack.append((f"{path}[{key!r}]", a[key], b[key]))
            else:
                # id()-keyed or object-keyed mapping: compare positionally
                for index, (ka, kb) in enumerate(zip(keys_a, keys_b)):
                    if isinstance(ka, int) and isinstance(kb, int):
                        id_sets.append((f"{path}.key{index}", {ka}, {kb}))
                    else:
                        stack.append((f"{path}.key{index}", ka, kb))
                    stack.append((f"{path}.value{index}", a[ka], b[kb]))
        else:
            fields_a = _fields(a)
            fields_b = _fields(b)
            if set(fields_a.keys()) != set(fields_b.keys()):
                differences.append(
                    f"{path}: attributes {sorted(set(fields_a) ^ set(fields_b))[:5]} differ"
                )
                continue
            for name in fields_a:
                stack.append((f"{path}.{name}", fields_a[name], fields_b[name]))
    for path, a, b in id_sets:
        if len(differences) >= limit:
            break
        translated = {mapping.get(item) for item in a}
        if None in translated:
            differences.append(f"{path}: id set refers to objects outside the graph")
        elif translated != set(b):
            differences.append(f"{path}: id set does not refer to the corresponding objects")
    return differences


def _fields(obj: Any) -> Dict[str, Any]:
    result = {}  # type: Dict[str, Any]
    if hasattr(obj, "__dict__"):
        result.update(vars(obj))
    for cls in type(obj).__mro__:
        for name in getattr(cls, "__slots__", ()):
            if isinstance(name, str) and hasattr(obj, name) and name not in result:
                result[name] = getattr(obj, name)
    if isinstance(obj, ast.AST):
        for name in ("parent",):
            result.pop(name, None)
    return result


def check_pickle(model_name: str, target: Optional[str], base: pathlib.Path) -> Tuple[List[Violation], str]:
    from aas_core_codegen import run, specific_implementations
    from aas_core_codegen.common import LinenoColumner
    from aas_core_codegen import main as codegen_main
    import importlib

    case = {"kind": "pickle", "model": model_name, "target": target}
    model_path = harness.seed_model_path(model_name)
    with harness.private_tempdir(base / "tmp"):
        loaded, error = run.load_model(model_path, cache_model=False)
    assert error is None and loaded is not None, error
    symbol_table, atok = loaded
    try:
        cached = pickle.loads(pickle.dumps(run._Cached(symbol_table=symbol_table, atok=atok)))
    except Exception as exc:
        return [Violation("pickle-crash:" + crash_signature(exc), short_exc(exc), case)], "crash"

    if target is None:
        differences = graph_differences(symbol_table, cached.symbol_table)
        if differences:
            return (
                [Violation("unpickled-graph-differs", "; ".join(differences), case)],
                "graph-differs",
            )
        from aas_core_codegen import intermediate

        if intermediate.dump(symbol_table) != intermediate.dump(cached.symbol_table):
            return [Violation("unpickled-dump-differs", "intermediate.dump differs", case)], "dump-differs"
        return [], "graph-equal"

    snippets_dir = harness.repo_snippets_dir(target, model_name)
    assert snippets_dir is not None
    spec_impls, spec_errors = specific_implementations.read_from_directory(snippets_dir)
    assert spec_errors is None, spec_errors
    module = importlib.import_module(f"aas_core_codegen.{target}.main")
    outputs = []
    for label, (table, tokens) in (("original", (symbol_table, atok)), ("unpickled", (cached.symbol_table, cached.atok))):
        out = base / f"out-{label}"
        shutil.rmtree(out, ignore_errors=True)
        out.mkdir(parents=True)
        context = run.Context(
            model_path=model_path,
            symbol_table=table,
            spec_impls=spec_impls,
            lineno_columner=LinenoColumner(atok=tokens),
            output_dir=out,
        )
        import io

        stdout, stderr = io.StringIO(), io.StringIO()
        try:
            rc = module.execute(context, stdout=stdout, stderr=stderr)
        except Exception as exc:
            if label == "original":
                shutil.rmtree(out, ignore_errors=True)
                return [], "generator-crash(C02)"
            return (
                [Violation("unpickled-generator-crash:" + crash_signature(exc), short_exc(exc), case)],
                "crash",
            )
        outputs.append((rc, stdout.getvalue().replace(str(out), "<out>"), stderr.getvalue(), harness.read_tree(out)))
        shutil.rmtree(out, ignore_errors=True)
    if outputs[0] != outputs[1]:
        what = [name for name, (x, y) in zip(("rc", "stdout", "stderr", "files"), zip(*outputs)) if x != y]
        return (
            [Violation("unpickled-output-differs:" + "+".join(what), f"{what} differ for {target}", case)],
            "output-differs",
        )
    return [], f"output-equal(rc={outputs[0][0]})"


# --------------------------------------------------------------------------------------
# Shards
# --------------------------------------------------------------------------------------


def check_pickle_generated(bases: Any, tier: str) -> Result:
    """Pickle round-trip of every generated 3-class hierarchy with these bases."""
    from aas_core_codegen import intermediate, run
    from verif.checks import c05

    result = Result()
    for desc in c05.descriptions(tier, 3, list(bases)):
        if desc["wmt"].get(0) is True and desc["wmt"].get(2) is False:
            continue
        source = c05.render(desc)
        case = {"kind": "pickle-generated", "desc": desc}
        table, error = c05.translate(source)
        result.states += 1
        if error is not None or table is None:
            result.outcomes.add("generated-rejected")
            continue
        result.evaluations += 1
        result.transitions += 1
        if any(len(b) > 0 for b in bases):
            result.nontrivial += 1
        try:
            copy = pickle.loads(pickle.dumps(table))
        except Exception as exc:
            result.add_violation("pickle-crash:" + crash_signature(exc), short_exc(exc), case)
            continue
        differences = graph_differences(table, copy)
        if differences:
            result.add_violation("unpickled-graph-differs", "; ".join(differences), case)
            result.outcomes.add("graph-differs")
        elif intermediate.dump(table) != intermediate.dump(copy):
            result.add_violation("unpickled-dump-differs", "intermediate.dump differs", case)
        else:
            # every query of the class relations must answer the same
            for cls, cls_copy in zip(table.classes, copy.classes):
                for other, other_copy in zip(table.classes, copy.classes):
                    if cls.is_subclass_of(other) != cls_copy.is_subclass_of(other_copy):
                        result.add_violation(
                            "unpickled-query-differs",
                            f"{cls.name}.is_subclass_of({other.name})",
                            case,
                        )
            result.outcomes.add("graph-equal")
    return result


def shards(tier: str) -> List[Any]:
    from verif.checks import c05

    result = [("histories", tier)]  # type: List[Any]
    for bases in c05.base_choices(3):
        result.append(("pickle-generated", tuple(bases), tier))
    models = list(harness.SMALL_SEEDS)
    if tier == "thorough":
        models.append("aas_core_meta.v3")
    for model in models:
        result.append(("pickle", model, None))
        for target in harness.TARGETS:
            if harness.repo_snippets_dir(target, model) is not None:
                result.append(("pickle", model, target))
    return result


def work(shard: Any) -> Result:
    base = worker_tmp() / "c23"
    shutil.rmtree(base, ignore_errors=True)
    base.mkdir(parents=True)
    try:
        if shard[0] == "histories":
            return explore_histories(shard[1], base)
        if shard[0] == "pickle-generated":
            return check_pickle_generated(shard[1], shard[2])
        _, model, target = shard
        result = Result()
        violations, outcome = check_pickle(model, target, base)
        result.evaluations += 1
        result.transitions += 1
        result.states += 1
        if not outcome.startswith("generator-crash"):
            result.nontrivial += 1
        result.outcomes.add(outcome.split("(")[0])
        for v in violations:
            result.add_violation(v.signature, v.message, v.case)
        if target == "python" and model == "enum":
            result.samples.append({"pickle_round_trip": model, "target": target, "outcome": outcome})
        return result
    finally:
        shutil.rmtree(base, ignore_errors=True)


def replay(case: Any) -> List[Violation]:
    base = worker_tmp() / "c23r"
    shutil.rmtree(base, ignore_errors=True)
    base.mkdir(parents=True)
    try:
        if case["kind"] == "pickle":
            return check_pickle(case["model"], case["target"], base)[0]
        if case["kind"] == "pickle-generated":
            from aas_core_codegen import intermediate
            from verif.checks import c05

            desc = dict(case["desc"])
            desc["wmt"] = {int(k): v for k, v in desc["wmt"].items()}
            table, error = c05.translate(c05.render(desc))
            if table is None:
                return []
            copy = pickle.loads(pickle.dumps(table))
            differences = graph_differences(table, copy)
            if differences:
                return [Violation("unpickled-graph-differs", "; ".join(differences), case)]
            return []
        install_audit()
        world = World(base)
        world.reset()
        violations = []  # type: List[Violation]
        for op in case["ops"]:
            violations, _ = apply_op(world, tuple(op))
        for violation in violations:
            violation.case = case
        return violations
    finally:
        shutil.rmtree(base, ignore_errors=True)
