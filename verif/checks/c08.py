"""C08 — generated Python verification implements the invariants exactly."""
from __future__ import annotations

import re
import shutil
from typing import Any, Dict, List, Optional, Sequence, Tuple

from verif import gen_inv, gen_re, sdk
from verif.checks import c07
from verif.core import CaseTimeout, Result, Violation, short_exc, time_limit, worker_tmp

ID = "C08"

META = {
    "technique": (
        "exhaustive enumeration of accepted invariant expressions (the space of C07) "
        "packed into classes, generated with the real Python generators (types, "
        "constants, verification) and imported; on every instance of an exhaustive menu "
        "the multiset of (path, cause) reported by verification.verify is compared with "
        "the invariants which evaluate to false as Python; pattern and transpilable "
        "verification functions are compared with the source functions on all probe "
        "strings up to a length"
    ),
    "rule": (
        "(a) every expression of the C07 space which the front end and the transpiler "
        "accept, 8 per class Holder (declaration order and decorator order both "
        "occur), with invariants on the nested class Item and on the constrained "
        "primitive Tag, which are reached through class, Optional class, List and "
        "Optional List properties (paths `.c`, `.oc`, `.lk[i]`, `.olk[i]`, `.ns`); 62 "
        "instances (two base instances and all single-property variations): verify() "
        "reports exactly {(path, description) | the invariant is false as Python}, "
        "as a multiset; verify() may raise only where the Python evaluation raises; "
        "(b) 22 descriptions with quotes, backslashes, braces, percent signs, tabs, "
        "non-ASCII, 61-character words and articles at wrap positions: the cause is the "
        "description verbatim; (c) invariants inherited over a 2-level chain and "
        "re-stated; (d) pattern functions for every anchored pattern of the regex "
        "grammar up to K nodes and 3 hand-written f-string patterns, transpilable "
        "functions: SDK function == source function on all strings of length <= 3 "
        "over the pattern's characters + {c, newline}; non-trivial = (expression, "
        "instance) pairs where the invariant is false"
    ),
    "bounds": {
        "quick": "expressions of depth 1; patterns K<=2",
        "thorough": "expressions of depth 2; patterns K<=3",
    },
    "assumptions": [
        "Python semantics of an invariant = eval of the lambda text on plain objects; "
        "truthiness decides where the expression is not a bool (C07's business)",
        "paths are compared in the SDK's own rendering (`.prop`, `[i]`)",
    ],
}

PACK = 8
SLICES = {"quick": 48, "thorough": 64}

ITEM_INVARIANTS = [
    ("self.count >= 0", "Count must be non-negative."),
    ("not (self.label is not None) or len(self.label) > 0", "Label must not be empty."),
]
TAG_INVARIANTS = [("len(self) >= 1", "Tag must not be empty.")]

DESCRIPTIONS = [
    "It says \"quoted\" and 'single' things.",
    "Back\\slash and \\n stay as they are.",
    "A " + "w" * 61 + " word is long.",
    "The a an the a an the a an the a an the a an the a an the a an the a an the end.",
    "Percent %s and %d and {braces} and {{double}} remain.",
    "This sentence is a rather long one so that the wrapping of the text into the lines of a fixed "
    "width has to split it at an article or at the a word boundary more than once.",
    "Tab\there and there.",
    "Unicode é and \U0001F600 are kept.",
    "It ends with a quote\"",
    "It has triple \"\"\" quotes inside.",
    "It ends with an apostrophe'",
    "Dollar ${x} and `backticks` and #hash.",
    "Double  spaces  are  kept.",
    "x",
    "a",
    "Line separators are not used here.",
    "An " + "x" * 80,
    "Mixed 'single' and \"double\" and \\\"escaped\\\" quotes.",
    "A very long line without any article " + "word " * 30 + "end.",
    "Curly { and } alone.",
    "Ends with a space ",
    "The the the the.",
]


def shards(tier: str) -> List[Any]:
    result = [("expressions", tier, index, SLICES[tier]) for index in range(SLICES[tier])]
    result.append(("descriptions", tier))
    result.append(("inherited", tier))
    k = 2 if tier == "quick" else 3
    patterns = anchored_patterns(k)
    parts = max(1, len(patterns) // 60)
    for index in range(parts):
        result.append(("patterns", tier, index, parts))
    result.append(("functions", tier))
    return result


def anchored_patterns(k: int) -> List[str]:
    grammar = gen_re.Grammar(gen_re.LEAVES_BASIC + ["\\x61", "\\."], gen_re.QUANTIFIERS_BASIC + ["{2,}"])
    return [f"^{p}$" if "|" not in p else f"^({p})$" for p in grammar.patterns_up_to(k) if p]


# --------------------------------------------------------------------------------------
# Reference
# --------------------------------------------------------------------------------------


def reference_errors(
    env: sdk.RefEnv, spec: sdk.Spec, instance: Any, path: str = ""
) -> Tuple[List[Tuple[str, str]], bool]:
    """({(path, description)} of the false invariants, whether an evaluation raised)."""
    errors = []  # type: List[Tuple[str, str]]
    raised = False
    cls_name = instance["__class__"]
    obj = env.to_object(instance)
    for body, description in spec.all_invariants(cls_name):
        try:
            if not env.eval_invariant(body, obj):
                errors.append((path, description))
        except Exception:
            raised = True
    for name, annotation in spec.all_props(cls_name):
        typ = sdk.parse_type(spec, annotation)
        value = instance[name]
        if typ[0] == "opt":
            typ = typ[1]
        if value is None:
            continue
        if typ[0] == "class":
            sub, sub_raised = reference_errors(env, spec, value, f"{path}.{name}")
            errors.extend(sub)
            raised = raised or sub_raised
        elif typ[0] == "cprim":
            for body, description in spec.cprim_invariants(typ[1]):
                try:
                    if not env.eval_invariant(body, env.to_object(value)):
                        errors.append((f"{path}.{name}", description))
                except Exception:
                    raised = True
        elif typ[0] == "list":
            for index, element in enumerate(value):
                if typ[1][0] == "class":
                    sub, sub_raised = reference_errors(env, spec, element, f"{path}.{name}[{index}]")
                    errors.extend(sub)
                    raised = raised or sub_raised
                elif typ[1][0] == "cprim":
                    for body, description in spec.cprim_invariants(typ[1][1]):
                        try:
                            if not env.eval_invariant(body, env.to_object(element)):
                                errors.append((f"{path}.{name}[{index}]", description))
                        except Exception:
                            raised = True
    return errors, raised


def compare_on_instances(
    spec: sdk.Spec, light: gen_inv.LightSdk, env: sdk.RefEnv, instances: Sequence[Any],
    result: Result, info: Any, label: str,
) -> None:
    for instance in instances:
        expected, raised = reference_errors(env, spec, instance)
        result.evaluations += 1
        result.transitions += 1
        if expected:
            result.nontrivial += 1
        case = {"info": info, "instance": sdk.show(instance)}
        obj = light.build(spec, instance)
        try:
            got = [(str(error.path), error.cause) for error in light.verification.verify(obj)]
        except Exception as exc:
            if raised:
                result.outcomes.add("both-raise")
                continue
            result.add_violation(
                f"verify-raises:{label}:{type(exc).__name__}",
                f"verify raised {short_exc(exc)[:120]} where no invariant raises as Python",
                case,
            )
            continue
        if raised:
            # the reference is undefined for the raising invariant; compare the others
            result.outcomes.add("reference-raises")
            missing = [e for e in expected if e not in got]
            if missing:
                result.add_violation(
                    f"missing-error:{label}", f"verify misses {missing[:2]} (got {got[:3]})", case
                )
            continue
        if sorted(got) != sorted(expected):
            missing = [e for e in expected if e not in got]
            extra = [e for e in got if e not in expected]
            if missing and not extra:
                kind = "missing-error"
            elif extra and not missing:
                kind = "spurious-error"
            else:
                kind = "different-errors"
            # a wrong path or a wrong cause shows as one missing + one spurious entry
            if missing and extra:
                if {m[1] for m in missing} == {x[1] for x in extra}:
                    kind = "wrong-path"
                elif {m[0] for m in missing} == {x[0] for x in extra}:
                    kind = "wrong-cause"
            result.add_violation(
                f"{kind}:{label}",
                f"verify reports {sorted(got)[:3]} instead of {sorted(expected)[:3]}",
                case,
            )
        else:
            result.outcomes.add("errors-equal" if expected else "no-errors")


def build(spec: sdk.Spec, base: Any) -> Tuple[Optional[gen_inv.LightSdk], str]:
    text = gen_inv.model_text(spec)
    try:
        symbol_table, error = gen_inv.front_end(text, base)
    except Exception as exc:
        return None, f"crash: {short_exc(exc)}"
    if symbol_table is None:
        return None, error or ""
    try:
        light, errors = gen_inv.generate_light(symbol_table, base, with_import=True)
    except Exception as exc:
        return None, f"crash: {short_exc(exc)}"
    if light is None:
        return None, errors or ""
    return light, ""


def raises_somewhere(env: sdk.RefEnv, body: str, instances: Sequence[Any]) -> bool:
    for instance in instances:
        try:
            env.eval_invariant(body, env.to_object(instance))
        except Exception:
            return True
    return False


def production_label(body: str) -> str:
    for production, tags, other in gen_inv.expressions(2):
        if other == body:
            return production.split(":")[0]
    return "?"


def explore_pack(pack: List[Tuple[str, str]], result: Result, instances: Sequence[Any], base: Any) -> None:
    """``pack`` = [(production family, body)]; bisects when the pack is rejected."""
    invariants = [(body, f"Invariant {index} of the pack must hold.") for index, (_, body) in enumerate(pack)]
    spec = gen_inv.base_spec(invariants, ITEM_INVARIANTS, TAG_INVARIANTS)
    light, error = build(spec, base)
    if light is None:
        if len(pack) == 1:
            result.extra["packs_rejected"] = result.extra.get("packs_rejected", 0) + 1
            return
        middle = len(pack) // 2
        explore_pack(pack[:middle], result, instances, base)
        explore_pack(pack[middle:], result, instances, base)
        return
    try:
        env = gen_inv.ref_env(spec)
        label = "expressions"
        before = len(result.violations)
        compare_on_instances(spec, light, env, instances, result, {"kind": "pack", "bodies": [b for _, b in pack]}, label)
        if len(result.violations) > before and len(pack) > 1:
            # attribute the difference to single expressions (finer signatures)
            del result.violations[before:]
            result.extra["violating_cases"] = result.extra.get("violating_cases", 0)
            for family, body in pack:
                single_spec = gen_inv.base_spec([(body, "Invariant 0 of the pack must hold.")], ITEM_INVARIANTS, TAG_INVARIANTS)
                single, _ = build(single_spec, base)
                if single is None:
                    continue
                try:
                    single_result = Result()
                    compare_on_instances(
                        single_spec, single, gen_inv.ref_env(single_spec), instances, single_result,
                        {"kind": "pack", "bodies": [body]}, family,
                    )
                    for violation in single_result.violations:
                        result.add_violation(violation.signature, f"`{body}`: {violation.message}", violation.case)
                finally:
                    single.close()
            if len(result.violations) == before:
                # only the combination differs
                result.add_violation(
                    "different-errors:only-in-combination",
                    f"the pack {[b for _, b in pack][:3]}... differs although each invariant alone agrees",
                    {"info": {"kind": "pack", "bodies": [b for _, b in pack]}, "instance": sdk.show(instances[0])},
                )
    finally:
        light.close()


# --------------------------------------------------------------------------------------
# Work
# --------------------------------------------------------------------------------------


def work(shard: Any) -> Result:
    result = Result()
    kind = shard[0]
    base = worker_tmp() / "c08"
    instances = gen_inv.instances()
    try:
        with time_limit(3000):
            if kind == "expressions":
                _, tier, index, slices = shard
                depth = 1 if tier == "quick" else 2
                accepted = []  # type: List[Tuple[str, str]]
                raising = []  # type: List[Tuple[str, str]]
                probe_env = gen_inv.ref_env(gen_inv.base_spec([]))
                for number, (production, tags, body) in enumerate(gen_inv.expressions(depth)):
                    if number % slices != index:
                        continue
                    result.states += 1
                    verdict, _ = c07.accept(body, base)
                    if verdict != "accepted":
                        continue
                    # An expression which raises as Python on some instance would hide the
                    # other invariants of its pack on that instance: it goes alone.
                    if raises_somewhere(probe_env, body, instances):
                        raising.append((production.split(":")[0], body))
                    else:
                        accepted.append((production.split(":")[0], body))
                for single in raising:
                    explore_pack([single], result, instances, base)
                for start in range(0, len(accepted), PACK):
                    pack = accepted[start : start + PACK]
                    if (start // PACK) % 2 == 1:
                        pack = list(reversed(pack))
                    explore_pack(pack, result, instances, base)
                if accepted and len(result.samples) < 1:
                    result.samples.append({"pack": [b for _, b in accepted[:PACK]]})
            elif kind == "descriptions":
                for number, description in enumerate(DESCRIPTIONS):
                    result.states += 1
                    spec = gen_inv.base_spec(
                        [("self.i > 0", description), ("len(self.s) < 3", f"Second of {number}.")],
                        ITEM_INVARIANTS, TAG_INVARIANTS,
                    )
                    light, error = build(spec, base)
                    if light is None:
                        result.extra["descriptions_rejected"] = result.extra.get("descriptions_rejected", 0) + 1
                        continue
                    try:
                        compare_on_instances(
                            spec, light, gen_inv.ref_env(spec), instances, result,
                            {"kind": "description", "number": number}, "description",
                        )
                    finally:
                        light.close()
            elif kind == "inherited":
                explore_inherited(result, base)
            elif kind == "patterns":
                _, tier, index, parts = shard
                patterns = anchored_patterns(2 if tier == "quick" else 3)
                explore_patterns([p for n, p in enumerate(patterns) if n % parts == index], result, base)
            else:
                explore_functions(result, base)
    except CaseTimeout:
        result.timeouts += 1
    finally:
        shutil.rmtree(base, ignore_errors=True)
    return result


def explore_inherited(result: Result, base: Any) -> None:
    """Invariants of a 2-level chain: every ancestor's invariant holds for a descendant."""
    spec = sdk.Spec(
        enums={"Color": [("Red", "red"), ("Green", "green")]},
        cprims=[
            sdk.CPrim("Tag", "str", [("len(self) >= 1", "Tag must not be empty.")]),
            sdk.CPrim("Short_tag", "str", [("len(self) <= 2", "Short tag must be short.")], parent="Tag"),
        ],
        classes=[
            sdk.Cls("Item", [("count", "int"), ("label", "Optional[str]")], invariants=ITEM_INVARIANTS),
            sdk.Cls("Grand", [("i", "int"), ("t", "Short_tag")], abstract=True, model_type=True,
                    invariants=[("self.i > 0", "I must be positive.")]),
            sdk.Cls("Parent", [("s", "str")], bases=["Grand"],
                    invariants=[("len(self.s) > self.i", "S must be longer than i."), ("self.i < 10", "I must be small.")]),
            sdk.Cls("Child", [("os", "Optional[str]"), ("lk", "List[Item]")], bases=["Parent"],
                    invariants=[("not (self.os is not None) or self.os == self.s", "Os must equal s."),
                                ("self.i > 0", "I must be positive in the child too.")]),
            sdk.Cls("Holder", [("g", "Grand"), ("lp", "List[Parent]"), ("oc", "Optional[Child]")]),
        ],
    )
    light, error = build(spec, base)
    if light is None:
        result.extra.setdefault("harness_errors", []).append(f"inherited model rejected: {error[:200]}")
        return
    try:
        env = gen_inv.ref_env(spec)

        def child(i: int, s: str, os: Optional[str], t: str, items: List[Any]) -> Dict[str, Any]:
            return {"__class__": "Child", "i": i, "t": t, "s": s, "os": os, "lk": items}

        def parent(i: int, s: str, t: str) -> Dict[str, Any]:
            return {"__class__": "Parent", "i": i, "t": t, "s": s}

        grands = []  # type: List[Any]
        for i in (0, 1, 12):
            for s in ("", "ab"):
                for t in ("", "a", "abc"):
                    grands.append(parent(i, s, t))
                    for os in (None, "ab", "x"):
                        grands.append(child(i, s, os, t, [gen_inv.item(-1), gen_inv.item(1, "")]))
        instances = []
        for number, g in enumerate(grands):
            instances.append({
                "__class__": "Holder", "g": g,
                "lp": [grands[(number * 7 + 1) % len(grands)], grands[(number * 3 + 2) % len(grands)]],
                "oc": None if number % 3 == 0 else [x for x in grands if x["__class__"] == "Child"][number % 5],
            })
        result.states += len(instances)
        compare_on_instances(spec, light, env, instances, result, {"kind": "inherited"}, "inherited")
    finally:
        light.close()


PATTERN_FUNCTION = '''\
@verification
def matches_{index}(text: str) -> bool:
    """Check that :paramref:`text` matches."""
    pattern = {pattern!r}
    return match(pattern, text) is not None


'''


def explore_patterns(patterns: List[str], result: Result, base: Any) -> None:
    if not patterns:
        return
    text = "".join(PATTERN_FUNCTION.format(index=index, pattern=pattern) for index, pattern in enumerate(patterns))
    text += (
        'class Something(DBC):\n    """Represent something."""\n\n    text: str\n\n'
        "    def __init__(self, text: str) -> None:\n        self.text = text\n\n\n"
        '__version__ = "dummy"\n__xml_namespace__ = "https://dummy.com"\n'
    )
    try:
        symbol_table, error = gen_inv.front_end(text, base)
    except Exception:
        symbol_table, error = None, "crash"
    light = None
    if symbol_table is not None:
        try:
            light, error = gen_inv.generate_light(symbol_table, base, with_import=True)
        except Exception:
            light = None
    if light is None:
        if len(patterns) == 1:
            result.extra["patterns_rejected"] = result.extra.get("patterns_rejected", 0) + 1
            return
        middle = len(patterns) // 2
        explore_patterns(patterns[:middle], result, base)
        explore_patterns(patterns[middle:], result, base)
        return
    try:
        for index, pattern in enumerate(patterns):
            result.states += 1
            function = getattr(light.verification, f"matches_{index}")
            alphabet = sorted(set(c for c in pattern if c.isalnum() or c in ".-")) + ["c", "\n"]
            compiled = re.compile(pattern)
            for probe in gen_re.probes(tuple(alphabet[:5]), 3):
                result.evaluations += 1
                result.transitions += 1
                expected = compiled.match(probe) is not None
                try:
                    got = function(probe)
                except Exception as exc:
                    result.add_violation(
                        "pattern-function-raises", f"{pattern!r} on {probe!r}: {short_exc(exc)[:100]}",
                        {"info": {"kind": "pattern", "pattern": pattern, "probe": probe}},
                    )
                    break
                if got is not expected:
                    result.add_violation(
                        "pattern-function-differs",
                        f"matches({pattern!r}, {probe!r}) is {got!r} in the SDK, {expected!r} in Python",
                        {"info": {"kind": "pattern", "pattern": pattern, "probe": probe}},
                    )
                    break
                if expected:
                    result.nontrivial += 1
    finally:
        light.close()


def explore_functions(result: Result, base: Any) -> None:
    """The verification functions of the verbatim block against their sources."""
    spec = gen_inv.base_spec([], ITEM_INVARIANTS, TAG_INVARIANTS)
    light, error = build(spec, base)
    if light is None:
        result.extra.setdefault("harness_errors", []).append(f"base model rejected: {error[:200]}")
        return
    try:
        env = gen_inv.ref_env(spec)
        probes = gen_re.probes(("a", "A", "1", "-", "B", "\n"), 4)
        for name in ("matches_word", "matches_code", "is_short"):
            source = env.namespace[name]
            generated = getattr(light.verification, name)
            result.states += 1
            for probe in probes:
                result.evaluations += 1
                result.transitions += 1
                expected = source(probe)
                got = generated(probe)
                if expected:
                    result.nontrivial += 1
                if got is not expected:
                    result.add_violation(
                        f"verification-function-differs:{name}",
                        f"{name}({probe!r}) is {got!r} in the SDK, {expected!r} in Python",
                        {"info": {"kind": "function", "name": name, "probe": probe}},
                    )
                    break
        source = env.namespace["all_positive"]
        generated = getattr(light.verification, "all_positive")
        for numbers in ([], [1], [0], [1, 2], [2, -1], [-1, 2], [1, 0, 3]):
            result.evaluations += 1
            if generated(numbers) is not source(numbers):
                result.add_violation(
                    "verification-function-differs:all_positive",
                    f"all_positive({numbers}) is {generated(numbers)!r} in the SDK",
                    {"info": {"kind": "function", "name": "all_positive", "probe": numbers}},
                )
    finally:
        light.close()


def replay(case: Any) -> List[Violation]:
    info = case["info"]
    result = Result()
    base = worker_tmp() / "c08-replay"
    try:
        if info["kind"] == "pack":
            pack = [(production_label(body), body) for body in info["bodies"]]
            explore_pack(pack, result, [sdk.unshow(case["instance"])], base)
        elif info["kind"] == "description":
            description = DESCRIPTIONS[info["number"]]
            spec = gen_inv.base_spec(
                [("self.i > 0", description), ("len(self.s) < 3", f"Second of {info['number']}.")],
                ITEM_INVARIANTS, TAG_INVARIANTS,
            )
            light, _ = build(spec, base)
            if light is not None:
                try:
                    compare_on_instances(spec, light, gen_inv.ref_env(spec), [sdk.unshow(case["instance"])], result, info, "description")
                finally:
                    light.close()
        elif info["kind"] == "inherited":
            explore_inherited(result, base)
        elif info["kind"] == "pattern":
            explore_patterns([info["pattern"]], result, base)
        else:
            explore_functions(result, base)
    finally:
        shutil.rmtree(base, ignore_errors=True)
    return result.violations
