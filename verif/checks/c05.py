"""
C05 — the intermediate model faithfully resolves inheritance.

All DAG-shaped class hierarchies on <= n classes (every edge set over the declaration
order, every order of the bases in the class statement, abstract/concrete flags,
ownership of invariants/methods, model-type placements) are rendered to meta-model
source, pushed through the real front end, and the intermediate symbol table is compared
clause by clause with a reference computed from the DAG description alone.
"""
from __future__ import annotations

import itertools
from typing import Any, Dict, Iterator, List, Optional, Sequence, Set, Tuple

from verif.core import Result, Violation, crash_signature, short_exc

ID = "C05"

NAMES = ["Aaa", "Bbb", "Ccc", "Ddd", "Eee"]
PRIMITIVE_NAMES = ["Paa", "Pbb", "Pcc"]

META = {
    "technique": (
        "exhaustive enumeration of class DAGs x base orders x flags, real "
        "parse+intermediate.translate compared with set/closure reference model"
    ),
    "rule": (
        "every edge set over n declared classes (edges from earlier to later "
        "declarations: all DAGs with all topological declaration orders up to renaming) "
        "x every permutation of the bases in each class statement x every "
        "abstract/concrete assignment x {no / all} own invariants x {no / all} own "
        "implementation-specific methods x model-type placements {none, first class "
        "True, last class True, first True + last False (contradiction when related)}; "
        "every class owns one property; plus constrained-primitive forests on <= 3 "
        "types; non-trivial = the hierarchy has at least one inheritance edge"
    ),
    "bounds": {
        "quick": "n <= 4 classes with all flags for n <= 3 and reduced flags (abstract masks x 2 ownership variants x 2 placements) for n = 4; constrained primitives n <= 3",
        "thorough": "n <= 4 with all flags; n = 5 with abstract masks {all concrete, roots abstract}, one ownership variant, two placements",
    },
    "assumptions": [
        "member order is checked leniently: set equality, no duplicates, own members "
        "last in declaration order, every ancestor's member before a descendant's",
        "declaration order is topological (as Python itself requires)",
    ],
}


# --------------------------------------------------------------------------------------
# Description -> source
# --------------------------------------------------------------------------------------
# desc = dict(n, bases=[tuple of base indices in statement order], abstract=[bool],
#             inv=bool, meth=bool, wmt={index: bool})


def render(desc: Any) -> str:
    n = desc["n"]
    props = reference_props(desc)
    lines = []  # type: List[str]
    for i in range(n):
        name = NAMES[i]
        if desc["abstract"][i]:
            lines.append("@abstract")
        if i in desc["wmt"]:
            lines.append(f"@serialization(with_model_type={desc['wmt'][i]})")
        if desc["inv"]:
            lines.append(
                f'@invariant(lambda self: self.p{i} > 0, "P{i} of {name} positive.")'
            )
        bases = [NAMES[b] for b in desc["bases"][i]]
        lines.append(f"class {name}({', '.join(bases + ['DBC'])}):")
        lines.append(f'    """Represent {name}."""')
        lines.append("")
        lines.append(f"    p{i}: int")
        lines.append("")
        if desc["meth"]:
            lines.append("    @implementation_specific")
            lines.append(f"    def m{i}(self) -> int:")
            lines.append(f'        """Do {name}."""')
            lines.append("")
        args = ", ".join(f"p{j}: int" for j in props[i])
        lines.append(f"    def __init__(self, {args}) -> None:")
        for b in desc["bases"][i]:
            call_args = ", ".join(f"p{j}" for j in props[b])
            lines.append(f"        {NAMES[b]}.__init__(self, {call_args})")
        lines.append(f"        self.p{i} = p{i}")
        lines.append("")
        lines.append("")
    lines.append('__version__ = "dummy"')
    lines.append('__xml_namespace__ = "https://dummy.com"')
    return "\n".join(lines) + "\n"


def reference_props(desc: Any) -> List[List[int]]:
    """Property (owner index) order per class: bases in statement order, then own."""
    props = []  # type: List[List[int]]
    for i in range(desc["n"]):
        mine = []  # type: List[int]
        for b in desc["bases"][i]:
            for j in props[b]:
                if j not in mine:
                    mine.append(j)
        mine.append(i)
        props.append(mine)
    return props


def reference_ancestors(desc: Any) -> List[Set[int]]:
    anc = []  # type: List[Set[int]]
    for i in range(desc["n"]):
        mine = set()  # type: Set[int]
        for b in desc["bases"][i]:
            mine.add(b)
            mine |= anc[b]
        anc.append(mine)
    return anc


# --------------------------------------------------------------------------------------
# Space
# --------------------------------------------------------------------------------------


def base_choices(n: int) -> Iterator[List[Tuple[int, ...]]]:
    """Every assignment of (ordered) bases to the n classes."""
    per_class = []  # type: List[List[Tuple[int, ...]]]
    for i in range(n):
        options = []  # type: List[Tuple[int, ...]]
        for k in range(0, i + 1):
            for subset in itertools.combinations(range(i), k):
                for perm in itertools.permutations(subset):
                    options.append(perm)
        per_class.append(options)
    for combo in itertools.product(*per_class):
        yield list(combo)


def placements(n: int, reduced: bool) -> List[Dict[int, bool]]:
    result = [{}, {0: True}]  # type: List[Dict[int, bool]]
    if not reduced and n >= 2:
        result.append({n - 1: True})
        result.append({0: True, n - 1: False})
    return result


def descriptions(tier: str, n: int, bases: List[Tuple[int, ...]]) -> Iterator[Any]:
    full = n <= 3 or (tier == "thorough" and n == 4)
    if full:
        abstract_masks = list(itertools.product([False, True], repeat=n))
        ownership = [(False, False), (True, False), (False, True), (True, True)]
        wmt_list = placements(n, reduced=False)
    elif n == 4:
        abstract_masks = list(itertools.product([False, True], repeat=n))
        ownership = [(False, False), (True, True)]
        wmt_list = placements(n, reduced=True)
    else:
        roots_abstract = tuple(len(bases[i]) == 0 for i in range(n))
        abstract_masks = [tuple([False] * n), roots_abstract]
        ownership = [(True, True)]
        wmt_list = placements(n, reduced=True)
    for abstract in abstract_masks:
        for inv, meth in ownership:
            for wmt in wmt_list:
                yield {
                    "n": n,
                    "bases": [list(b) for b in bases],
                    "abstract": list(abstract),
                    "inv": inv,
                    "meth": meth,
                    "wmt": wmt,
                }


def shards(tier: str) -> List[Any]:
    result = []  # type: List[Any]
    max_n = 4 if tier == "quick" else 5
    for n in range(1, max_n + 1):
        for bases in base_choices(n):
            result.append(("cls", tier, n, tuple(bases)))
    # group small shards: the pool takes them one by one, fine
    result.append(("prim", tier))
    return result


# --------------------------------------------------------------------------------------
# Oracle
# --------------------------------------------------------------------------------------


def translate(source: str) -> Tuple[Optional[Any], Optional[str]]:
    from aas_core_codegen import intermediate, parse
    from aas_core_codegen.common import LinenoColumner

    atok, exc = parse.source_to_atok(source=source)
    if exc is not None:
        return None, f"syntax: {exc}"
    assert atok is not None
    import_errors = parse.check_expected_imports(atok=atok)
    if import_errors:
        return None, "imports: " + "; ".join(import_errors)
    parsed, error = parse.atok_to_symbol_table(atok=atok)
    if error is not None:
        return None, "parse: " + LinenoColumner(atok).error_message(error)
    assert parsed is not None
    table, error = intermediate.translate(parsed_symbol_table=parsed, atok=atok)
    if error is not None:
        return None, "translate: " + LinenoColumner(atok).error_message(error)
    return table, None


def _dups(names: Sequence[str]) -> List[str]:
    seen = set()  # type: Set[str]
    result = []
    for name in names:
        if name in seen and name not in result:
            result.append(name)
        seen.add(name)
    return result


def check_desc(desc: Any) -> Tuple[List[Violation], str]:
    from aas_core_codegen import intermediate
    from aas_core_codegen.intermediate import construction

    case = {"kind": "cls", "desc": desc}
    wmt = {int(k): v for k, v in desc["wmt"].items()}
    desc = dict(desc)
    desc["wmt"] = wmt
    n = desc["n"]
    source = render(desc)
    anc = reference_ancestors(desc)
    props = reference_props(desc)

    contradiction = any(
        wmt.get(i) is False and any(wmt.get(a) is True for a in anc[i]) for i in range(n)
    ) or any(
        wmt.get(i) is True and any(wmt.get(a) is False for a in anc[i]) for i in range(n)
    )

    try:
        table, error = translate(source)
    except Exception as exc:
        return [Violation("crash:" + crash_signature(exc), short_exc(exc)[:200], case)], "crash"

    violations = []  # type: List[Violation]

    def bad(clause: str, message: str) -> None:
        violations.append(Violation(clause, message, case))

    if error is not None:
        if contradiction and "with_model_type" in error:
            return [], "rejected-contradiction"
        shared = any(
            (anc[b1] | {b1}) & (anc[b2] | {b2})
            for i in range(n)
            for b1 in desc["bases"][i]
            for b2 in desc["bases"][i]
            if b1 < b2
        )
        if desc["meth"] and shared and "due to the diamond inheritance" in error:
            # Deliberate restriction of the tool: a method reachable over two parents
            # is rejected; a rejected model is not a case of this property.
            return [], "rejected-method-diamond"
        head = error.split(":", 1)[0]
        bad(f"unexpected-rejection:{head}", error[:300])
        return violations, "rejected"

    assert table is not None
    if contradiction:
        bad("accepted-contradictory-model-type", "contradictory with_model_type accepted")

    classes = {}  # type: Dict[int, Any]
    for i in range(n):
        cls = table.find_our_type(NAMES[i])
        if cls is None:
            bad("class-missing", f"{NAMES[i]} not in the symbol table")
            return violations, "accepted"
        classes[i] = cls

    desc_sets = [set(j for j in range(n) if i in anc[j]) for i in range(n)]

    for i in range(n):
        cls = classes[i]
        name = NAMES[i]
        # --- kind
        expected_cls = intermediate.AbstractClass if desc["abstract"][i] else intermediate.ConcreteClass
        if type(cls) is not expected_cls:
            bad("class-kind", f"{name} is {type(cls).__name__}")

        # --- ancestors / descendants
        got = [a.name for a in cls.ancestors]
        if _dups(got):
            bad("ancestors-dup", f"{name}.ancestors = {got}")
        if set(got) != {NAMES[a] for a in anc[i]}:
            bad("ancestors-set", f"{name}.ancestors = {got}, expected {sorted(NAMES[a] for a in anc[i])}")
        if set(cls.ancestor_id_set) != {id(a) for a in cls.ancestors}:
            bad("id-set-inconsistent", f"{name}.ancestor_id_set")
        got = [d.name for d in cls.descendants]
        if _dups(got):
            bad("descendants-dup", f"{name}.descendants = {got}")
        if set(got) != {NAMES[d] for d in desc_sets[i]}:
            bad("descendants-set", f"{name}.descendants = {got}, expected {sorted(NAMES[d] for d in desc_sets[i])}")
        if set(cls.descendant_id_set) != {id(d) for d in cls.descendants}:
            bad("id-set-inconsistent", f"{name}.descendant_id_set")
        got = [d.name for d in cls.concrete_descendants]
        expected_concrete = {NAMES[d] for d in desc_sets[i] if not desc["abstract"][d]}
        if _dups(got):
            bad("descendants-dup", f"{name}.concrete_descendants = {got}")
        if set(got) != expected_concrete:
            bad("concrete-descendants-set", f"{name}.concrete_descendants = {got}, expected {sorted(expected_concrete)}")
        if set(cls.concrete_descendant_id_set) != {id(d) for d in cls.concrete_descendants}:
            bad("id-set-inconsistent", f"{name}.concrete_descendant_id_set")
        # inheritances = declared bases
        got = [b.name for b in cls.inheritances]
        if sorted(got) != sorted(NAMES[b] for b in desc["bases"][i]):
            bad("inheritances", f"{name}.inheritances = {got}")
        # is_subclass_of
        for j in range(n):
            expected_sub = (j == i) or (j in anc[i])
            if cls.is_subclass_of(classes[j]) != expected_sub:
                bad("is-subclass-of", f"{name}.is_subclass_of({NAMES[j]}) != {expected_sub}")

        # --- members
        for label, got_names, expected_owner_order, own_name in (
            ("props", [p.name for p in cls.properties], props[i], f"p{i}"),
            (
                "invariants",
                [inv.description for inv in cls.invariants],
                props[i] if desc["inv"] else [],
                f"P{i} of {name} positive.",
            ),
            (
                "methods",
                [m.name for m in cls.methods],
                props[i] if desc["meth"] else [],
                f"m{i}",
            ),
        ):
            if label == "props":
                expected_names = [f"p{j}" for j in expected_owner_order]
            elif label == "invariants":
                expected_names = [f"P{j} of {NAMES[j]} positive." for j in expected_owner_order]
            else:
                expected_names = [f"m{j}" for j in expected_owner_order]
            if _dups(got_names):
                bad(f"{label}-dup", f"{name}.{label} = {got_names}")
            if set(got_names) != set(expected_names):
                bad(f"{label}-set", f"{name}.{label} = {got_names}, expected {expected_names}")
            elif expected_names:
                if got_names[-1] != own_name:
                    bad(f"{label}-own-not-last", f"{name}.{label} = {got_names}")
                # every member of an ancestor precedes members first declared below it
                position = {member: index for index, member in enumerate(got_names)}
                for a_index, a in enumerate(expected_owner_order):
                    for b in expected_owner_order:
                        if a in anc[b] and position[expected_names[a_index]] > position[
                            expected_names[expected_owner_order.index(b)]
                        ]:
                            bad(f"{label}-order", f"{name}.{label} = {got_names}")

        for prop in cls.properties:
            owner = int(prop.name[1:])
            if prop.specified_for is not classes[owner]:
                bad("props-specified-for", f"{name}.{prop.name}.specified_for = {prop.specified_for.name}")

        # --- constructor
        statements = cls.constructor.inlined_statements
        if any(isinstance(s, construction.CallSuperConstructor) for s in statements):
            bad("ctor-super-call-left", f"{name}: super call not in-lined")
        assigned = [s.name for s in statements if isinstance(s, construction.AssignArgument)]
        if _dups(assigned):
            bad("ctor-assign-once", f"{name} constructor assigns {assigned}")
        if set(assigned) != {f"p{j}" for j in props[i]}:
            bad("ctor-assign-set", f"{name} constructor assigns {assigned}, expected {[f'p{j}' for j in props[i]]}")
        got_args = [a.name for a in cls.constructor.arguments]
        if got_args != [f"p{j}" for j in props[i]]:
            bad("ctor-arguments", f"{name} constructor arguments {got_args}")

        # --- interface
        expected_interface = desc["abstract"][i] or len(desc_sets[i]) > 0
        if (cls.interface is not None) != expected_interface:
            bad("interface", f"{name}.interface is {'set' if cls.interface is not None else 'None'}")
        elif cls.interface is not None:
            got = {impl.name for impl in cls.interface.implementers}
            expected_impl = {NAMES[d] for d in desc_sets[i] | {i} if not desc["abstract"][d]}
            if got != expected_impl:
                bad("interface-implementers", f"{name}.interface.implementers = {sorted(got)}, expected {sorted(expected_impl)}")
            got_inh = {inh.name for inh in cls.interface.inheritances}
            if got_inh != {NAMES[b] for b in desc["bases"][i]}:
                bad("interface-inheritances", f"{name}.interface.inheritances = {sorted(got_inh)}")

        # --- model type
        expected_wmt = any(wmt.get(a) is True for a in anc[i] | {i})
        if not contradiction and bool(cls.serialization.with_model_type) != expected_wmt:
            bad("model-type", f"{name}.with_model_type = {cls.serialization.with_model_type}, expected {expected_wmt}")

    # --- topological order
    order = [t.name for t in table.our_types_topologically_sorted]
    if sorted(order) != sorted(NAMES[:n]) or _dups(order):
        bad("topo-order-set", f"{order}")
    else:
        position = {name: index for index, name in enumerate(order)}
        for i in range(n):
            for b in desc["bases"][i]:
                if position[NAMES[b]] > position[NAMES[i]]:
                    bad("topo-order", f"{NAMES[b]} after {NAMES[i]} in {order}")

    return violations, "accepted"


# --------------------------------------------------------------------------------------
# Constrained primitives
# --------------------------------------------------------------------------------------


def primitive_descs() -> Iterator[Any]:
    for n in range(1, 4):
        # parent[i] in {-1 (str)} + earlier indices
        for parents in itertools.product(*[[-1] + list(range(i)) for i in range(n)]):
            for inv_mask in itertools.product([False, True], repeat=n):
                yield {"n": n, "parents": list(parents), "inv": list(inv_mask)}


def render_primitives(desc: Any) -> str:
    lines = []  # type: List[str]
    for i in range(desc["n"]):
        if desc["inv"][i]:
            lines.append(
                f'@invariant(lambda self: len(self) > {i}, "Longer than {i}.")'
            )
        parent = "str" if desc["parents"][i] < 0 else PRIMITIVE_NAMES[desc["parents"][i]]
        lines.append(f"class {PRIMITIVE_NAMES[i]}({parent}, DBC):")
        lines.append(f'    """Represent {PRIMITIVE_NAMES[i]}."""')
        lines.append("")
        lines.append("")
    lines.append('__version__ = "dummy"')
    lines.append('__xml_namespace__ = "https://dummy.com"')
    return "\n".join(lines) + "\n"


def check_primitives(desc: Any) -> Tuple[List[Violation], str]:
    from aas_core_codegen import intermediate

    case = {"kind": "prim", "desc": desc}
    n = desc["n"]
    try:
        table, error = translate(render_primitives(desc))
    except Exception as exc:
        return [Violation("crash:" + crash_signature(exc), short_exc(exc)[:200], case)], "crash"
    violations = []  # type: List[Violation]

    def bad(clause: str, message: str) -> None:
        violations.append(Violation("prim-" + clause, message, case))

    if error is not None:
        bad("unexpected-rejection:" + error.split(":", 1)[0], error[:300])
        return violations, "rejected"
    assert table is not None
    anc = []  # type: List[List[int]]
    for i in range(n):
        parent = desc["parents"][i]
        anc.append([] if parent < 0 else anc[parent] + [parent])
    for i in range(n):
        prim = table.find_our_type(PRIMITIVE_NAMES[i])
        if not isinstance(prim, intermediate.ConstrainedPrimitive):
            bad("kind", f"{PRIMITIVE_NAMES[i]} is {type(prim).__name__}")
            continue
        got = [a.name for a in prim.ancestors]
        if _dups(got) or set(got) != {PRIMITIVE_NAMES[a] for a in anc[i]}:
            bad("ancestors", f"{PRIMITIVE_NAMES[i]}.ancestors = {got}")
        expected_desc = {PRIMITIVE_NAMES[j] for j in range(n) if i in anc[j]}
        got = [d.name for d in prim.descendants]
        if _dups(got) or set(got) != expected_desc:
            bad("descendants", f"{PRIMITIVE_NAMES[i]}.descendants = {got}")
        if prim.constrainee is not intermediate.PrimitiveType.STR:
            bad("constrainee", f"{PRIMITIVE_NAMES[i]}.constrainee = {prim.constrainee}")
        expected_inv = [f"Longer than {j}." for j in anc[i] + [i] if desc["inv"][j]]
        got = [inv.description for inv in prim.invariants]
        if got != expected_inv:
            bad("invariants", f"{PRIMITIVE_NAMES[i]}.invariants = {got}, expected {expected_inv}")
    order = [t.name for t in table.our_types_topologically_sorted]
    position = {name: index for index, name in enumerate(order)}
    for i in range(n):
        parent = desc["parents"][i]
        if parent >= 0 and position.get(PRIMITIVE_NAMES[parent], 99) > position.get(PRIMITIVE_NAMES[i], -1):
            bad("topo-order", f"{order}")
    return violations, "accepted"


# --------------------------------------------------------------------------------------


def work(shard: Any) -> Result:
    result = Result()
    if shard[0] == "prim":
        for desc in primitive_descs():
            violations, outcome = check_primitives(desc)
            result.evaluations += 1
            result.states += 1
            result.transitions += 1
            if any(p >= 0 for p in desc["parents"]):
                result.nontrivial += 1
            result.outcomes.add("prim-" + outcome)
            for v in violations:
                result.add_violation(v.signature, v.message, v.case)
        result.samples.append({"primitives": {"n": 3, "parents": [-1, 0, 1], "inv": [True, False, True]}})
        return result

    _, tier, n, bases = shard
    for desc in descriptions(tier, n, list(bases)):
        violations, outcome = check_desc(desc)
        result.evaluations += 1
        result.states += 1
        result.transitions += 1
        if any(len(b) > 0 for b in bases):
            result.nontrivial += 1
        result.outcomes.add(outcome)
        for v in violations:
            result.add_violation(v.signature, v.message, v.case)
        if len(result.samples) < 1 and n == 4 and sum(len(b) for b in bases) >= 4:
            result.samples.append({"bases": [list(b) for b in bases], "abstract": desc["abstract"], "wmt": {str(k): v for k, v in desc["wmt"].items()}})
    return result


def replay(case: Any) -> List[Violation]:
    if case["kind"] == "prim":
        return check_primitives(case["desc"])[0]
    return check_desc(case["desc"])[0]
