"""C14 — the XSD enforces the constraints a class declares itself."""
from __future__ import annotations

from typing import Any, List

from verif.checks import c13
from verif.core import Result, Violation

ID = "C14"

META = {
    "technique": (
        "the model / document space of C11 through the real xsd target and the real "
        "Python SDK: every SDK-written XML document on which exactly one invariant is "
        "false as Python must be rejected by the XSD, unless the broken constraint is a "
        "tightening which a descendant applies to an inherited property; plus an "
        "exhaustive structural fault alphabet on a valid document"
    ),
    "rule": (
        "models and values as C11/C13; an instance counts when exactly one invariant "
        "(of the class, an ancestor or the constrained primitive) is false; with the "
        "`split` placement only the ancestor's own constraint is demanded; structural "
        "faults on a valid document: each required element removed, each element "
        "renamed, duplicated, stripped of its namespace, an unknown element appended, "
        "an element misplaced, the root renamed; non-trivial = single-constraint "
        "violations validated"
    ),
    "bounds": {"quick": "all models", "thorough": "all models"},
    "assumptions": list(c13.META["assumptions"]),
}


def shards(tier: str) -> List[Any]:
    return [("models", tier, index, c13.SLICES) for index in range(c13.SLICES)] + [("history", tier)]


def work(shard: Any) -> Result:
    return c13.work_mode(shard, "complete")


def replay(case: Any) -> List[Violation]:
    return c13.replay_common(case, "complete")
