"""C22 — generation is deterministic."""
from __future__ import annotations

import gc
import json
import os
import pathlib
import shutil
import subprocess
import sys
from typing import Any, Dict, Iterator, List, Optional, Tuple

from verif import gen_dev, harness, stream
from verif.core import CaseTimeout, Result, Violation, short_exc, time_limit, worker_tmp

ID = "C22"

META = {
    "technique": (
        "exhaustive enumeration of a configuration product (models x targets x "
        "PYTHONHASHSEED values x output-directory histories x snippet listing orders x "
        "same / other process) in real interpreter processes; all observations of one "
        "(model, target) must be identical; plus every rejected single-deviation mutant "
        "loaded twice in one process with shifted allocations"
    ),
    "rule": (
        "models: 8 common meta-models with the repository's snippets, the kitchen-sink "
        "model, a model which stacks eight patterns, four constant sets and length bounds "
        "over a three-level hierarchy, 6 rejected models with several independent errors (unknown types, "
        "dangling references, bad invariants, contradictory constraints, invalid "
        "snippet files); targets: all 8; reference observation = (rc, stdout with the "
        "output path masked, stderr, {relative path: sha256}) under PYTHONHASHSEED=0, "
        "fresh absolute output directory, sorted listing; variants: every other hash "
        "seed of the tier (own process), second run in the same process, another "
        "location, relative output path, output directory which already holds the same "
        "files, output directory holding the files of another target (only the files of "
        "the fresh run are compared), snippet listing reversed / rotated / every "
        "permutation when there are <= 4 snippet files; stream clause: every rejected d=1 "
        "mutant of the common seeds is loaded twice in one process while the first "
        "result is kept alive (different object addresses): equal reports; "
        "non-trivial = variant runs of accepted models which wrote files, and rejected "
        "mutants with a located report"
    ),
    "bounds": {
        "quick": "PYTHONHASHSEED in {0,1,2}; listing orders: reversed, rotated by 1, and all permutations up to 4 files; stream: 4 common seeds, reduced menu",
        "thorough": "PYTHONHASHSEED in {0..11, 4294967295}; listing orders as quick plus rotations by 2 and 3; stream: all seeds, full menu",
    },
    "assumptions": [
        "the hash-seed dimension is a bounded enumeration of an unbounded configuration "
        "space (the honest limit of this check)",
        "files which were already in the output directory and which the generator does "
        "not write are not part of the output",
    ],
}

DRIVER = pathlib.Path(__file__).resolve().parent.parent / "c22_driver.py"  # verif/c22_driver.py

REJECTED = {
    "rej_unknown_types": '''\
class First(DBC):
    """Represent the first."""

    alpha: Unknown_one

    beta: Dict[str, int]

    def __init__(self, alpha: Unknown_one, beta: Dict[str, int]) -> None:
        self.alpha = alpha
        self.beta = beta


class Second(DBC):
    """Represent the second."""

    gamma: Unknown_two

    delta_value: List[Unknown_three]

    def __init__(self, gamma: Unknown_two, delta_value: List[Unknown_three]) -> None:
        self.gamma = gamma
        self.delta_value = delta_value


class Third(Missing_parent):
    """Represent the third."""


__version__ = "dummy"
__xml_namespace__ = "https://dummy.com"
''',
    "rej_references": '''\
class First(DBC):
    """
    Represent the first, see :class:`Nowhere` and :attr:`Second.nothing`.

    Also :class:`Elsewhere`.
    """

    alpha: str
    """Be alpha, see :attr:`First.gone` and :const:`No_constant`."""

    def __init__(self, alpha: str) -> None:
        self.alpha = alpha


class Second(DBC):
    """Represent the second, see :class:`Vanished`."""

    beta: str
    """Be beta, see :class:`Lost`."""

    def __init__(self, beta: str) -> None:
        self.beta = beta


__version__ = "dummy"
__xml_namespace__ = "https://dummy.com"
''',
    "rej_invariants": '''\
@invariant(lambda self: self.nothing > 0, "Nothing must be positive.")
@invariant(lambda self: len(self.alpha) > self.gone, "Alpha must be long.")
class First(DBC):
    """Represent the first."""

    alpha: str

    def __init__(self, alpha: str) -> None:
        self.alpha = alpha


@invariant(lambda self: unknown_function(self.beta), "Beta must be good.")
@invariant(lambda self: self.beta.missing == 1, "Beta must have something.")
class Second(DBC):
    """Represent the second."""

    beta: str

    def __init__(self, beta: str) -> None:
        self.beta = beta


@invariant(lambda self: self.gamma + 1, "Gamma must be something.")
class Third(DBC):
    """Represent the third."""

    gamma: int

    def __init__(self, gamma: int) -> None:
        self.gamma = gamma


__version__ = "dummy"
__xml_namespace__ = "https://dummy.com"
''',
    "rej_constraints": '''\
@invariant(lambda self: len(self.alpha) > 5, "Alpha must be long.")
@invariant(lambda self: len(self.alpha) < 3, "Alpha must be short.")
@invariant(lambda self: len(self.beta) == 2, "Beta must be two.")
@invariant(lambda self: len(self.beta) == 3, "Beta must be three.")
class First(DBC):
    """Represent the first."""

    alpha: str

    beta: List[str]

    def __init__(self, alpha: str, beta: List[str]) -> None:
        self.alpha = alpha
        self.beta = beta


@invariant(lambda self: len(self.gamma) > 7, "Gamma must be long.")
@invariant(lambda self: len(self.gamma) < 2, "Gamma must be short.")
class Second(DBC):
    """Represent the second."""

    gamma: str

    def __init__(self, gamma: str) -> None:
        self.gamma = gamma


__version__ = "dummy"
__xml_namespace__ = "https://dummy.com"
''',
    "rej_names": '''\
class First(DBC):
    """Represent the first."""

    some_value: str

    someValue: str

    Some_value: str

    def __init__(self, some_value: str, someValue: str, Some_value: str) -> None:
        self.some_value = some_value
        self.someValue = someValue
        self.Some_value = Some_value


class first(DBC):
    """Represent the other first."""

    alpha: str

    def __init__(self, alpha: str) -> None:
        self.alpha = alpha


class FIRST(DBC):
    """Represent yet another first."""

    beta: str

    def __init__(self, beta: str) -> None:
        self.beta = beta


__version__ = "dummy"
__xml_namespace__ = "https://dummy.com"
''',
}

def _rich_constraints_model() -> str:
    """Many patterns, sets and bounds stacked over a three-level hierarchy (accepted)."""
    names = ["alpha", "beta", "gamma", "delta_x", "epsilon", "zeta", "eta", "theta"]
    lines = []
    for index, name in enumerate(names):
        lines += [
            "@verification",
            f"def matches_{name}(text: str) -> bool:",
            f'    """Check that :paramref:`text` matches {name}."""',
            f'    pattern = "^[a-{chr(ord("k") + index)}]*$"',
            "    return match(pattern, text) is not None",
            "",
            "",
        ]
    for index in range(4):
        values = ", ".join(f'"{chr(97 + k)}"' for k in range(index, index + 6))
        lines += [f"Set_{index}: Set[str] = constant_set(values=[{values}])", ""]
    lines += [
        "",
        '@invariant(lambda self: matches_alpha(self.p), "P must match alpha.")',
        '@invariant(lambda self: matches_beta(self.p), "P must match beta.")',
        '@invariant(lambda self: len(self.p) <= 9, "P must be short.")',
        '@invariant(lambda self: self.r in Set_0, "R must be in the set 0.")',
        "@serialization(with_model_type=True)",
        "class Parent(DBC):",
        '    """Represent the parent."""',
        "",
        "    p: str",
        "",
        "    r: str",
        "",
        "    def __init__(self, p: str, r: str) -> None:",
        "        self.p = p",
        "        self.r = r",
        "",
        "",
        '@invariant(lambda self: matches_gamma(self.p), "P must match gamma.")',
        '@invariant(lambda self: matches_delta_x(self.p), "P must match delta.")',
        '@invariant(lambda self: matches_epsilon(self.p), "P must match epsilon.")',
        '@invariant(lambda self: len(self.p) >= 1, "P must not be empty.")',
        "class Child(Parent):",
        '    """Represent the child."""',
        "",
        "    def __init__(self, p: str, r: str) -> None:",
        "        Parent.__init__(self, p, r)",
        "",
        "",
        '@invariant(lambda self: matches_zeta(self.p), "P must match zeta.")',
        '@invariant(lambda self: matches_eta(self.p), "P must match eta.")',
        '@invariant(lambda self: matches_theta(self.p), "P must match theta.")',
        "class Grandchild(Child):",
        '    """Represent the grandchild."""',
        "",
        "    def __init__(self, p: str, r: str) -> None:",
        "        Child.__init__(self, p, r)",
        "",
        "",
        '__version__ = "dummy"',
        '__xml_namespace__ = "https://dummy.com"',
    ]
    return "\n".join(lines) + "\n"


ACCEPTED_EXTRA = {"rich_constraints": _rich_constraints_model()}

GOOD_MODEL_FOR_BAD_SNIPPETS = "primitive_types"

QUICK_STREAM_SEEDS = ("enum", "list_of_enums", "constrained_primitives", "primitive_types")

HASH_SEEDS = {"quick": [0, 1, 2], "thorough": list(range(12)) + [4294967295]}


def model_names() -> List[str]:
    return list(harness.SMALL_SEEDS) + ["kitchen_sink"] + sorted(ACCEPTED_EXTRA) + sorted(REJECTED) + ["rej_snippets"]


def shards(tier: str) -> List[Any]:
    result = []  # type: List[Any]
    for model in model_names():
        # one shard per model: the reference observation is shared by all its variants
        variants = [["seed", seed] for seed in HASH_SEEDS[tier][1:]] + [["history"], ["glob"]]
        if tier == "thorough":
            # the hash seeds of the thorough tier are split over three shards
            third = (len(variants) + 2) // 3
            for start in range(0, len(variants), third):
                result.append(("config", tier, model, variants[start : start + third]))
        else:
            result.append(("config", tier, model, variants))
    for shard in stream.shards(tier):
        if tier == "quick" and shard[0] not in QUICK_STREAM_SEEDS:
            continue
        result.append(("stream",) + shard)
    return result


# --------------------------------------------------------------------------------------
# Configuration product
# --------------------------------------------------------------------------------------


def prepare_model(model: str, base: pathlib.Path) -> Tuple[pathlib.Path, Dict[str, pathlib.Path]]:
    """Write the model and its snippets per target beneath ``base``."""
    base.mkdir(parents=True, exist_ok=True)
    if model in harness.SMALL_SEEDS:
        text = harness.seed_model_path(model).read_text(encoding="utf-8")
        root = gen_dev.first_concrete_class(text)
    elif model == "kitchen_sink":
        text = gen_dev.seed_text("kitchen_sink")
        root = gen_dev.first_concrete_class(text)
    elif model == "rej_snippets":
        text = harness.seed_model_path(GOOD_MODEL_FOR_BAD_SNIPPETS).read_text(encoding="utf-8")
        root = gen_dev.first_concrete_class(text)
    elif model in ACCEPTED_EXTRA:
        text = ACCEPTED_EXTRA[model]
        root = "Parent"
    else:
        text = REJECTED[model]
        root = "First"
    model_path = base / "model.py"
    model_path.write_text(text, encoding="utf-8")
    snippets = {}  # type: Dict[str, pathlib.Path]
    for target in harness.TARGETS:
        recorded = harness.repo_snippets_dir(target, model) if model in harness.SMALL_SEEDS else None
        directory = base / f"snippets-{target}"
        if recorded is not None:
            shutil.copytree(recorded, directory)
        else:
            harness.synth_snippets(target, directory, root)
        if model == "rej_snippets":
            (directory / "1 bad key.txt").write_text("x", encoding="utf-8")
            (directory / "another-bad-key.txt").write_text("y", encoding="utf-8")
            (directory / "Types").mkdir(exist_ok=True)
            (directory / "Types" / "not_utf8.py").write_bytes(b"\xff\xfe\x00bad")
            (directory / "Types" / "bad key too.py").write_text("z", encoding="utf-8")
        snippets[target] = directory
    return model_path, snippets


def run_job(job: Any, hash_seed: int, base: pathlib.Path) -> List[Any]:
    job_path = base / f"job-{hash_seed}-{len(list(base.glob('job-*')))}.json"
    job_path.write_text(json.dumps(job), encoding="utf-8")
    env = dict(os.environ)
    env["PYTHONHASHSEED"] = str(hash_seed)
    env["PYTHONDONTWRITEBYTECODE"] = "1"
    proc = subprocess.run(
        [sys.executable, str(DRIVER), str(job_path)],
        capture_output=True,
        env=env,
        timeout=1500,
    )
    if proc.returncode != 0:
        raise RuntimeError(f"driver failed: {proc.stderr.decode('utf-8', 'replace')[-400:]}")
    return json.loads(proc.stdout.decode("utf-8"))


def snippet_file_count(directory: pathlib.Path) -> int:
    return sum(1 for p in directory.rglob("*") if p.is_file())


def compare(
    reference: Any, observed: Any, restrict_tree: bool
) -> Optional[Tuple[str, str]]:
    for key in ("rc", "crash", "stderr", "stdout"):
        if reference[key] != observed[key]:
            return key, f"{key}: {str(reference[key])[:120]!r} vs {str(observed[key])[:120]!r}"
    ref_tree, obs_tree = reference["tree"], observed["tree"]
    if restrict_tree:
        obs_tree = {k: v for k, v in obs_tree.items() if k in ref_tree}
    if ref_tree != obs_tree:
        differing = sorted(
            k for k in set(ref_tree) | set(obs_tree) if ref_tree.get(k) != obs_tree.get(k)
        )
        return "files", f"files differ: {differing[:4]}"
    return None


def explore_config(tier: str, model: str, variants: List[List[Any]], result: Result) -> None:
    base = worker_tmp() / f"c22-{model}"
    if base.exists():
        shutil.rmtree(base)
    try:
        model_path, snippets = prepare_model(model, base)
        tmp = base / "tmp"
        tmp.mkdir()
        reference_runs = [
            {"target": t, "snippets": str(snippets[t]), "output": str(base / "ref" / t)}
            for t in harness.TARGETS
        ]
        reference = run_job({"model": str(model_path), "tmp": str(tmp), "runs": reference_runs}, 0, base)
        result.evaluations += len(reference)
        by_target = {run["target"]: obs for run, obs in zip(reference_runs, reference)}
        for number, variant in enumerate(variants):
            explore_variant(tier, model, variant, number, base, model_path, snippets, tmp, by_target, result)
        if len(result.samples) < 1:
            result.samples.append({"model": model, "variants": variants})
    finally:
        shutil.rmtree(base, ignore_errors=True)


def explore_variant(
    tier: str,
    model: str,
    variant: List[Any],
    number: int,
    base: pathlib.Path,
    model_path: pathlib.Path,
    snippets: Dict[str, pathlib.Path],
    tmp: pathlib.Path,
    by_target: Dict[str, Any],
    result: Result,
) -> None:
    runs = []  # type: List[Tuple[str, str, bool, Any]]  # (target, dimension, restrict, run)
    hash_seed = 0
    root = base / f"variant{number}"
    root.mkdir()
    if variant[0] == "seed":
        hash_seed = variant[1]
        for t in harness.TARGETS:
            runs.append((t, "hashseed", False, {"target": t, "snippets": str(snippets[t]), "output": str(root / "v" / t)}))
            runs.append((t, "same-process", False, {"target": t, "snippets": str(snippets[t]), "output": str(root / "v2" / t)}))
    elif variant[0] == "history":
        for t in harness.TARGETS:
            out = root / "elsewhere" / "deeper" / t
            runs.append((t, "location", False, {"target": t, "snippets": str(snippets[t]), "output": str(out)}))
            runs.append((t, "existing-output", False, {"target": t, "snippets": str(snippets[t]), "output": str(out)}))
            runs.append((t, "relative-path", False, {"target": t, "snippets": str(snippets[t]), "output": str(root / "rel" / t), "relative": True}))
            # the shared directory already holds what the previous target wrote
            runs.append((t, "stale-files", True, {"target": t, "snippets": str(snippets[t]), "output": str(root / "shared")}))
        (root / "rel").mkdir()
    else:
        import math

        for t in harness.TARGETS:
            count = snippet_file_count(snippets[t])
            orders = ["reverse", ["rotate", 1]]  # type: List[Any]
            if tier == "thorough":
                orders += [["rotate", 2], ["rotate", 3]]
            if 2 <= count <= 4:
                orders += [["perm", k] for k in range(1, math.factorial(count))]
            for index, order in enumerate(orders):
                runs.append((t, "listing-order", False, {"target": t, "snippets": str(snippets[t]), "output": str(root / f"g{index}" / t), "glob": order}))
    observed = run_job({"model": str(model_path), "tmp": str(tmp), "runs": [r[3] for r in runs]}, hash_seed, base)
    for (target, dimension, restrict, run), obs in zip(runs, observed):
        result.evaluations += 1
        result.transitions += 1
        result.states += 1
        ref = by_target[target]
        if ref["rc"] == 0 and ref["tree"]:
            result.nontrivial += 1
        result.outcomes.add(f"rc={ref['rc']}:{dimension}")
        difference = compare(ref, obs, restrict)
        if difference is not None:
            what, message = difference
            accepted = "accepted" if ref["rc"] == 0 else "rejected"
            result.add_violation(
                f"differs:{what}:{dimension}:{accepted}",
                f"{model}/{target} under {dimension} {variant}: {message}",
                {"kind": "config", "tier": tier, "model": model, "variant": variant},
            )
    shutil.rmtree(root, ignore_errors=True)


# --------------------------------------------------------------------------------------
# Stream clause: the same text loaded twice at different addresses
# --------------------------------------------------------------------------------------


def check_twice(text: str, info: Any) -> Tuple[Optional[Violation], bool]:
    base = worker_tmp() / "c22s"
    try:
        model_path = stream.write_model(base, text)
        first = stream.load(model_path)
        if first.stage in ("crash", "accepted", "not-xor", "?"):
            return None, False
        # keep ``first`` (and some garbage) alive so that the second run's objects live
        # at other addresses
        ballast = [object() for _ in range(257)]
        second = stream.load(model_path)
        del ballast
        located = "At line" in (first.error or "")
        if first.error != second.error:
            return (
                Violation(
                    "differs:stderr:same-text-twice",
                    f"two loads of one text report differently: {_first_difference(first.error or '', second.error or '')}",
                    {"kind": "stream", "text": text, "info": info},
                ),
                located,
            )
        return None, located
    finally:
        shutil.rmtree(base, ignore_errors=True)


def _first_difference(left: str, right: str) -> str:
    for a, b in zip(left.splitlines(), right.splitlines()):
        if a != b:
            return f"{a.strip()[:100]!r} vs {b.strip()[:100]!r}"
    return "different lengths"


def work(shard: Any) -> Result:
    result = Result()
    if shard[0] == "config":
        _, tier, model, variants = shard
        try:
            with time_limit(2400):
                explore_config(tier, model, variants, result)
        except CaseTimeout:
            result.timeouts += 1
        return result
    _, seed, menu, index, slices = shard
    for descriptor, text in gen_dev.mutants_of_shard(seed, menu, index, slices):
        try:
            with time_limit(60):
                violation, located = check_twice(text, {"seed": seed, "deviation": descriptor})
        except CaseTimeout:
            result.timeouts += 1
            continue
        except Exception:
            continue
        result.evaluations += 2
        result.states += 1
        result.transitions += 1
        if located:
            result.nontrivial += 1
        if violation is not None:
            result.add_violation(violation.signature, violation.message, violation.case)
    gc.collect()
    return result


def replay(case: Any) -> List[Violation]:
    result = Result()
    if case["kind"] == "config":
        explore_config(case["tier"], case["model"], [case["variant"]], result)
        return result.violations
    violation, _ = check_twice(case["text"], case.get("info"))
    return [violation] if violation is not None else []
