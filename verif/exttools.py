"""
External interpreters / compilers used as *decoders* and *parsers* by some checks, looked
up at run time.  A missing tool makes the sub-check a ``skipped_tools`` entry, never a pass.
"""
from __future__ import annotations

import functools
import glob
import os
import pathlib
import shutil
import subprocess
from typing import List, Optional, Sequence, Tuple


@functools.lru_cache(maxsize=None)
def node22() -> Optional[str]:
    """A node which runs TypeScript sources (``--experimental-transform-types``)."""
    candidates = sorted(glob.glob("/root/.nvm/versions/node/v2[2-9]*/bin/node"), reverse=True)
    for candidate in candidates:
        if os.access(candidate, os.X_OK):
            return candidate
    return None


@functools.lru_cache(maxsize=None)
def node_any() -> Optional[str]:
    return node22() or shutil.which("node")


@functools.lru_cache(maxsize=None)
def gxx() -> Optional[str]:
    return shutil.which("g++")


@functools.lru_cache(maxsize=None)
def javac() -> Optional[str]:
    return shutil.which("javac")


@functools.lru_cache(maxsize=None)
def java() -> Optional[str]:
    return shutil.which("java")


@functools.lru_cache(maxsize=None)
def xmllint() -> Optional[str]:
    found = shutil.which("xmllint")
    if found:
        return found
    if os.access("/root/miniconda/bin/xmllint", os.X_OK):
        return "/root/miniconda/bin/xmllint"
    return None


@functools.lru_cache(maxsize=None)
def jackson_classpath() -> Optional[str]:
    """Jackson core/databind/annotations jars (needed by the generated Java SDK)."""
    roots = ["/opt/veriftools"]
    found = {}
    for root in roots:
        for name in ("jackson-core", "jackson-databind", "jackson-annotations"):
            hits = sorted(glob.glob(f"{root}/**/{name}-2*.jar", recursive=True))
            if hits:
                found[name] = hits[0]
    if len(found) == 3:
        return ":".join(found[name] for name in sorted(found))
    return None


@functools.lru_cache(maxsize=None)
def cpp_shim_include() -> Optional[str]:
    """Directory holding only nlohmann/ and expat headers (symlinks), for the C++ SDK."""
    source = pathlib.Path("/root/miniconda/include")
    if not (source / "nlohmann").is_dir() or not (source / "expat.h").exists():
        return None
    return str(source)


def run(
    cmd: Sequence[str],
    cwd: Optional[pathlib.Path] = None,
    timeout: float = 600,
    stdin: Optional[str] = None,
    env: Optional[dict] = None,
) -> Tuple[int, str, str]:
    """Run a tool; return (exit code, stdout, stderr); 124 on timeout."""
    try:
        proc = subprocess.run(
            list(cmd),
            cwd=str(cwd) if cwd is not None else None,
            capture_output=True,
            timeout=timeout,
            input=stdin.encode("utf-8", "surrogatepass") if stdin is not None else None,
            env=env,
        )
    except subprocess.TimeoutExpired:
        return 124, "", "timeout"
    return (
        proc.returncode,
        proc.stdout.decode("utf-8", "replace"),
        proc.stderr.decode("utf-8", "replace"),
    )
