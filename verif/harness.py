"""Shared helpers to drive the real aas-core-codegen entry points in-process."""
from __future__ import annotations

import contextlib
import io
import os
import pathlib
import shutil
import sys
import tempfile
from typing import Any, Dict, Iterator, List, Optional, Tuple

REPO = pathlib.Path(os.environ.get("VERIF_REPO", "/repo"))
TEST_DATA = REPO / "dev" / "test_data"
COMMON_MODELS = TEST_DATA / "common_meta_models"

TARGETS = ["cpp", "csharp", "golang", "java", "jsonschema", "python", "typescript", "xsd"]

SMALL_SEEDS = [
    "constrained_primitives",
    "deep_class_hierarchy",
    "enum",
    "list_of_classes",
    "list_of_constrained_primitives",
    "list_of_enums",
    "list_of_primitives",
    "primitive_types",
]


def seed_model_path(name: str) -> pathlib.Path:
    return COMMON_MODELS / f"{name}.py"


def repo_snippets_dir(target: str, model_name: str) -> Optional[pathlib.Path]:
    """The snippets recorded in the repository's own test data, if any."""
    path = TEST_DATA / "main" / target / "expected" / model_name / "input" / "snippets"
    return path if path.is_dir() else None


def read_tree(root: pathlib.Path) -> Dict[str, bytes]:
    """Map relative POSIX path -> bytes for all the files beneath ``root``."""
    result = {}  # type: Dict[str, bytes]
    if not root.exists():
        return result
    for dirpath, _, filenames in os.walk(root):
        for filename in filenames:
            path = pathlib.Path(dirpath) / filename
            result[path.relative_to(root).as_posix()] = path.read_bytes()
    return result


def target_enum(target: str) -> Any:
    from aas_core_codegen import main as codegen_main

    return codegen_main.Target(target)


def execute(
    model_path: pathlib.Path,
    target: str,
    snippets_dir: pathlib.Path,
    output_dir: pathlib.Path,
    cache_model: bool = False,
) -> Tuple[int, str, str]:
    """Call ``main.execute`` in-process; exceptions propagate to the caller."""
    from aas_core_codegen import main as codegen_main

    params = codegen_main.Parameters(
        model_path=model_path,
        target=codegen_main.Target(target),
        snippets_dir=snippets_dir,
        output_dir=output_dir,
        cache_model=cache_model,
    )
    stdout, stderr = io.StringIO(), io.StringIO()
    rc = codegen_main.execute(params, stdout=stdout, stderr=stderr)
    return rc, stdout.getvalue(), stderr.getvalue()


def run_cli_in_process(argv: List[str]) -> Tuple[Any, str, str]:
    """
    Call ``main.main`` with a patched ``sys.argv`` (argparse and flag plumbing on the
    path).  ``SystemExit`` from argparse is reported as its code.
    """
    from aas_core_codegen import main as codegen_main

    saved_argv = sys.argv
    stdout, stderr = io.StringIO(), io.StringIO()
    sys.argv = ["aas-core-codegen"] + list(argv)
    try:
        with contextlib.redirect_stdout(stdout), contextlib.redirect_stderr(stderr):
            try:
                rc = codegen_main.main(prog="aas-core-codegen")
            except SystemExit as exit_:
                rc = exit_.code
    finally:
        sys.argv = saved_argv
    return rc, stdout.getvalue(), stderr.getvalue()


@contextlib.contextmanager
def scratch_dir(prefix: str = "s-") -> Iterator[pathlib.Path]:
    path = pathlib.Path(tempfile.mkdtemp(prefix=prefix))
    try:
        yield path
    finally:
        shutil.rmtree(path, ignore_errors=True)


@contextlib.contextmanager
def private_tempdir(path: pathlib.Path) -> Iterator[None]:
    """Make ``tempfile.gettempdir()`` answer ``path`` for the duration."""
    saved = tempfile.tempdir
    path.mkdir(parents=True, exist_ok=True)
    tempfile.tempdir = str(path)
    try:
        yield
    finally:
        tempfile.tempdir = saved


def synth_snippets(target: str, directory: pathlib.Path, root_class: str = "Something") -> pathlib.Path:
    """Write the minimal snippets which ``target`` requires for any model."""
    import aas_core_codegen.naming as naming
    from aas_core_codegen.common import Identifier

    directory.mkdir(parents=True, exist_ok=True)
    if target in ("cpp", "csharp"):
        (directory / "namespace.txt").write_text("dummy", encoding="utf-8")
    elif target == "golang":
        (directory / "repo_url.txt").write_text("github.com/dummy-works/dummy", encoding="utf-8")
    elif target == "java":
        (directory / "package.txt").write_text("dummy.pkg", encoding="utf-8")
    elif target == "python":
        (directory / "qualified_module_name.txt").write_text("dummy", encoding="utf-8")
    elif target == "typescript":
        (directory / "package_documentation.txt").write_text("Provide dummy SDK.", encoding="utf-8")
        (directory / "package_identifier.txt").write_text("@dummy-works/dummy", encoding="utf-8")
    elif target == "jsonschema":
        name = naming.json_model_type(Identifier(root_class))
        (directory / "schema_base.json").write_text(
            '{\n  "$schema": "https://json-schema.org/draft/2019-09/schema",\n'
            '  "title": "DummyForTest",\n  "type": "object",\n  "allOf": [\n'
            '    {\n      "$ref": "#/definitions/' + name + '"\n    }\n  ]\n}\n',
            encoding="utf-8",
        )
    elif target == "xsd":
        xml_name = naming.xml_class_name(Identifier(root_class))
        (directory / "root_element.xml").write_text(
            '<xs:schema\n        xmlns:xs="http://www.w3.org/2001/XMLSchema"\n'
            '        xmlns="https://dummy.com"\n        elementFormDefault="qualified"\n'
            '        targetNamespace="https://dummy.com"\n>\n'
            f'    <xs:element name="{xml_name}" type="{xml_name}_t" />\n</xs:schema>\n',
            encoding="utf-8",
        )
    else:
        raise ValueError(target)
    return directory


def execute_target(
    symbol_table: Any,
    atok: Any,
    model_path: pathlib.Path,
    target: str,
    snippets_dir: pathlib.Path,
    output_dir: pathlib.Path,
) -> Tuple[int, str, str]:
    """Call ``<target>.main.execute`` on an already loaded model (no front end)."""
    import importlib

    from aas_core_codegen import run, specific_implementations
    from aas_core_codegen.common import LinenoColumner

    spec_impls, errors = specific_implementations.read_from_directory(snippets_dir)
    assert errors is None, errors
    output_dir.mkdir(parents=True, exist_ok=True)
    context = run.Context(
        model_path=model_path,
        symbol_table=symbol_table,
        spec_impls=spec_impls,
        lineno_columner=LinenoColumner(atok=atok),
        output_dir=output_dir,
    )
    module = importlib.import_module(f"aas_core_codegen.{target}.main")
    stdout, stderr = io.StringIO(), io.StringIO()
    rc = module.execute(context, stdout=stdout, stderr=stderr)
    return rc, stdout.getvalue(), stderr.getvalue()
