"""Shared helpers to drive the real aas-core-codegen entry points in-process."""
from __future__ import annotations

import contextlib
import io
import os
import pathlib
import shutil
import sys
import tempfile
from typing import Any, Dict, Iterator, List, Optional, Tuple

REPO = pathlib.Path(os.environ.get("VERIF_REPO", "/repo"))
TEST_DATA = REPO / "dev" / "test_data"
COMMON_MODELS = TEST_DATA / "common_meta_models"

TARGETS = ["cpp", "csharp", "golang", "java", "jsonschema", "python", "typescript", "xsd"]

SMALL_SEEDS = [
    "constrained_primitives",
    "deep_class_hierarchy",
    "enum",
    "list_of_classes",
    "list_of_constrained_primitives",
    "list_of_enums",
    "list_of_primitives",
    "primitive_types",
]


def seed_model_path(name: str) -> pathlib.Path:
    return COMMON_MODELS / f"{name}.py"


def repo_snippets_dir(target: str, model_name: str) -> Optional[pathlib.Path]:
    """The snippets recorded in the repository's own test data, if any."""
    path = TEST_DATA / "main" / target / "expected" / model_name / "input" / "snippets"
    return path if path.is_dir() else None


def read_tree(root: pathlib.Path) -> Dict[str, bytes]:
    """Map relative POSIX path -> bytes for all the files beneath ``root``."""
    result = {}  # type: Dict[str, bytes]
    if not root.exists():
        return result
    for dirpath, _, filenames in os.walk(root):
        for filename in filenames:
            path = pathlib.Path(dirpath) / filename
            result[path.relative_to(root).as_posix()] = path.read_bytes()
    return result


def target_enum(target: str) -> Any:
    from aas_core_codegen import main as codegen_main

    return codegen_main.Target(target)


def execute(
    model_path: pathlib.Path,
    target: str,
    snippets_dir: pathlib.Path,
    output_dir: pathlib.Path,
    cache_model: bool = False,
) -> Tuple[int, str, str]:
    """Call ``main.execute`` in-process; exceptions propagate to the caller."""
    from aas_core_codegen import main as codegen_main

    params = codegen_main.Parameters(
        model_path=model_path,
        target=codegen_main.Target(target),
        snippets_dir=snippets_dir,
        output_dir=output_dir,
        cache_model=cache_model,
    )
    stdout, stderr = io.StringIO(), io.StringIO()
    rc = codegen_main.execute(params, stdout=stdout, stderr=stderr)
    return rc, stdout.getvalue(), stderr.getvalue()


def run_cli_in_process(argv: List[str]) -> Tuple[Any, str, str]:
    """
    Call ``main.main`` with a patched ``sys.argv`` (argparse and flag plumbing on the
    path).  ``SystemExit`` from argparse is reported as its code.
    """
    from aas_core_codegen import main as codegen_main

    saved_argv = sys.argv
    stdout, stderr = io.StringIO(), io.StringIO()
    sys.argv = ["aas-core-codegen"] + list(argv)
    try:
        with contextlib.redirect_stdout(stdout), contextlib.redirect_stderr(stderr):
            try:
                rc = codegen_main.main(prog="aas-core-codegen")
            except SystemExit as exit_:
                rc = exit_.code
    finally:
        sys.argv = saved_argv
    return rc, stdout.getvalue(), stderr.getvalue()


@contextlib.contextmanager
def scratch_dir(prefix: str = "s-") -> Iterator[pathlib.Path]:
    path = pathlib.Path(tempfile.mkdtemp(prefix=prefix))
    try:
        yield path
    finally:
        shutil.rmtree(path, ignore_errors=True)


@contextlib.contextmanager
def private_tempdir(path: pathlib.Path) -> Iterator[None]:
    """Make ``tempfile.gettempdir()`` answer ``path`` for the duration."""
    saved = tempfile.tempdir
    path.mkdir(parents=True, exist_ok=True)
    tempfile.tempdir = str(path)
    try:
        yield
    finally:
        tempfile.tempdir = saved
