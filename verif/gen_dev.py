"""
G-MM-DEV: the deviation-bounded neighbourhood of seed meta-models (DESIGN.md 2.2).

A *deviation* is one edit at one site of the seed's AST (or token stream) taken from a
fixed operator alphabet.  ``descriptors(seed)`` enumerates **every** (site x operator x
menu entry); ``apply`` renders one of them to text.  Everything is deterministic.
"""
from __future__ import annotations

import ast
import copy
import io
import pathlib
import tokenize
from typing import Any, Dict, Iterator, List, Optional, Sequence, Tuple

from verif import harness

SEED_DIR = pathlib.Path(__file__).resolve().parent / "seeds"

# --------------------------------------------------------------------------------------
# Menus
# --------------------------------------------------------------------------------------

EXPR_EXEMPLARS_FULL = [
    "x", "self", "None", "True", "1", "-1", "1.5", "'s'", "b'b'", "...", "1j",
    "self.x", "self.x.y", "x[0]", "x[0:1]", "x[0][1]", "f(x)", "f()()", "x[0]()",
    "self.f(x)", "len(self.x)", "f(x, y=1)", "f(*x)", "f(**x)",
    "x + 1", "x - 1", "x * 2", "x % 2", "x // 2", "x ** 2", "x << 1", "x @ y",
    "x and y", "x or y", "x and y and z",
    "x == 1", "x != 1", "x < 1", "x <= 1", "x > 1", "x >= 1", "x is None",
    "x is not None", "x in y", "x not in y", "0 < x < 2",
    "not x", "-x", "~x", "+x",
    "lambda: 1", "lambda self: self.x > 0", "x if y else z",
    "{1: 2}", "{1, 2}", "[1, 2]", "(1, 2)", "()", "[]",
    "[i for i in x]", "all(i > 0 for i in x)", "any(i > 0 for i in x if i)",
    "all(x[i] > 0 for i in range(0, len(x)))", "{i for i in x}", "{i: i for i in x}",
    "f'{x}'", "f'{x!r}'", "f'{x:>3}'", "f'a{x}b'",
    "(y := 1)", "x.y.z.w", "match(x, y)", "match(x, y) is not None",
]
EXPR_EXEMPLARS_REDUCED = [
    "x", "None", "1", "'s'", "self.x", "f()()", "x + 1", "x and y", "x < 1",
    "lambda: 1", "[1, 2]", "all(i > 0 for i in x if i)", "f'{x}'",
]

EXPR_EXEMPLARS_TINY = ["None", "f()()", "x and y", "x < 1", "all(i > 0 for i in x if i)"]
EXPR_MENUS = {0: EXPR_EXEMPLARS_REDUCED, 1: EXPR_EXEMPLARS_FULL, 2: EXPR_EXEMPLARS_TINY}

STMT_EXEMPLARS = [
    "pass", "x = 1", "x: int = 1", "x: int", "x += 1", "del x", "return x", "return",
    "raise E", "assert x", "import os", "from typing import List", "global x",
    "if x:\n    pass", "for i in x:\n    pass", "while x:\n    pass",
    "with x:\n    pass", "try:\n    pass\nexcept E:\n    pass",
    "def f(self) -> None:\n    pass", "async def f(self) -> None:\n    pass",
    "class K:\n    pass", "x", "'doc'", "f(x)", "self.x = x", "self.x = y = 1",
    "a, b = 1, 2", "lambda: 1", "match x:\n    case 1:\n        pass", "yield x", "await x",
]

RENAME_MENU = [
    "$other", "class_", "Class", "int", "str", "self", "__init__", "_", "__",
    "é", "A_b", "A_B", "AB", "I_x", "Must_x", "descend", "xX_1",
]

STRING_MENU = [
    "", " ", "\x00", "\"", "'", "\\", "a\nb", "a\r\nb", "\t", "é", "\U0001F600",
    "^*", "{", "[]", "a{3,1}", "[^\U0001F600]", "(", "^a^b$", "^a|b$", "^\\x2a$", "^\\$$",
    "^a$", "^[a-", "^(a$", ":class:`Missing`", ":attr:`missing`", "*/", "ends with \"",
    "ends with \\", ":constref:`Missing`", "* bullet\n* list", ".. note::\n\n    n",
]
INT_MENU = [0, -1, 1, 2 ** 63, 2 ** 64, True, 1.0]

ANNOTATION_MENU = [
    "Optional[Optional[int]]", "List[Optional[int]]", "List[List[int]]", "Dict[str, int]",
    "'Str'", "'not an id'", "Unknown", "List", "List[int, str]", "5", "a.b",
    "Optional[int]", "Set[str]", "int", "str",
]

ARITY_FUNCS = {
    "constant_int", "constant_str", "constant_float", "constant_bool",
    "constant_bytearray", "constant_set", "invariant", "serialization", "match",
    "range", "len", "all", "any",
}

TEXT_INSERTS = ["(", ")", ":", "@", "\t", "\x00", "\ufeff", "\\"]


def seed_names(tier: str) -> List[str]:
    return ["kitchen_sink"] + list(harness.SMALL_SEEDS)


def seed_text(name: str) -> str:
    if name == "kitchen_sink":
        return (SEED_DIR / "kitchen_sink.py").read_text(encoding="utf-8")
    return harness.seed_model_path(name).read_text(encoding="utf-8")


def first_concrete_class(text: str) -> str:
    """The last class of the seed (a concrete one by construction of the seeds)."""
    tree = ast.parse(text)
    names = [
        node.name
        for node in tree.body
        if isinstance(node, ast.ClassDef)
        and not any(isinstance(b, ast.Name) and b.id in ("Enum", "str", "int", "float", "bool", "bytearray") for b in node.bases)
        and not any(isinstance(d, ast.Name) and d.id == "abstract" for d in node.decorator_list)
    ]
    return names[-1] if names else "Something"


# --------------------------------------------------------------------------------------
# Site enumeration
# --------------------------------------------------------------------------------------

Path = Tuple[Tuple[str, Optional[int]], ...]


def _walk(node: ast.AST, path: Path) -> Iterator[Tuple[Path, ast.AST, ast.AST, str, Optional[int]]]:
    """Yield (path, parent, child, field, index) for every child AST node."""
    for field, value in ast.iter_fields(node):
        if isinstance(value, list):
            for index, item in enumerate(value):
                if isinstance(item, ast.AST):
                    child_path = path + ((field, index),)
                    yield child_path, node, item, field, index
                    yield from _walk(item, child_path)
        elif isinstance(value, ast.AST):
            child_path = path + ((field, None),)
            yield child_path, node, value, field, None
            yield from _walk(value, child_path)


def _get(tree: ast.AST, path: Path) -> Tuple[ast.AST, str, Optional[int]]:
    """Return (parent, field, index) of the node at ``path``."""
    node = tree
    for field, index in path[:-1]:
        value = getattr(node, field)
        node = value[index] if index is not None else value
    field, index = path[-1]
    return node, field, index


def _set(tree: ast.AST, path: Path, new: ast.AST) -> None:
    parent, field, index = _get(tree, path)
    if index is None:
        setattr(parent, field, new)
    else:
        getattr(parent, field)[index] = new


_EXPR_CACHE = {}  # type: Dict[str, ast.expr]
_STMT_CACHE = {}  # type: Dict[str, ast.stmt]


def _expr(source: str) -> ast.expr:
    if source not in _EXPR_CACHE:
        _EXPR_CACHE[source] = ast.parse(source, mode="eval").body
    return copy.deepcopy(_EXPR_CACHE[source])


def _stmt(source: str) -> ast.stmt:
    if source not in _STMT_CACHE:
        if source.startswith(("yield", "await", "return")):
            wrapper = ast.parse("async def _w():\n    " + source.replace("\n", "\n    "))
            _STMT_CACHE[source] = wrapper.body[0].body[0]  # type: ignore
        else:
            _STMT_CACHE[source] = ast.parse(source).body[0]
    return copy.deepcopy(_STMT_CACHE[source])


IDENT_FIELDS = {
    ast.Name: "id",
    ast.Attribute: "attr",
    ast.ClassDef: "name",
    ast.FunctionDef: "name",
    ast.arg: "arg",
    ast.keyword: "arg",
}

ANNOTATION_SITES = {(ast.AnnAssign, "annotation"), (ast.arg, "annotation"), (ast.FunctionDef, "returns")}


def descriptors(text: str, menu: int) -> List[Any]:
    """Every single deviation of the seed ``text`` as a JSON-able descriptor."""
    tree = ast.parse(text)
    menu = int(menu)
    exprs = EXPR_MENUS[menu]
    result = []  # type: List[Any]
    names_in_scope = sorted(
        {n.id for n in ast.walk(tree) if isinstance(n, ast.Name)}
        | {n.name for n in ast.walk(tree) if isinstance(n, (ast.ClassDef, ast.FunctionDef))}
    )
    for path, parent, child, field, index in _walk(tree, ()):
        jpath = [list(step) for step in path]
        if index is not None:
            result.append(("delete", jpath))
            result.append(("duplicate", jpath))
            if index + 1 < len(getattr(parent, field)):
                result.append(("swap", jpath))
        if isinstance(child, ast.expr):
            is_annotation = (type(parent), field) in ANNOTATION_SITES
            if is_annotation:
                for k in range(len(ANNOTATION_MENU)):
                    result.append(("annotation", jpath, k))
            for k in range(len(exprs)):
                result.append(("expr", jpath, k, menu))
            if isinstance(child, ast.Constant):
                if isinstance(child.value, str):
                    for k in range(len(STRING_MENU)):
                        result.append(("string", jpath, k))
                elif isinstance(child.value, (int, float)) and not isinstance(child.value, bool):
                    for k in range(len(INT_MENU)):
                        result.append(("int", jpath, k))
            if isinstance(child, ast.JoinedStr) or (
                isinstance(child, ast.Constant) and isinstance(child.value, str)
            ):
                pass
            if (
                isinstance(child, ast.Call)
                and isinstance(child.func, ast.Name)
                and child.func.id in ARITY_FUNCS
            ):
                for count in range(0, 6):
                    result.append(("arity", jpath, count))
                for k in range(len(child.keywords)):
                    result.append(("kw-to-unknown", jpath, k))
        if isinstance(child, ast.stmt):
            for k in range(len(STMT_EXEMPLARS)):
                result.append(("stmt", jpath, k))
        ident_field = IDENT_FIELDS.get(type(child))
        if ident_field is not None and getattr(child, ident_field) is not None:
            current = getattr(child, ident_field)
            for k, entry in enumerate(RENAME_MENU):
                if entry == "$other":
                    for other in names_in_scope[:6]:
                        if other != current:
                            result.append(("rename", jpath, other))
                else:
                    result.append(("rename", jpath, entry))
    # text level
    tokens = _tokens(text)
    for k in range(1, len(tokens)):
        result.append(("truncate", k))
        result.append(("drop-token", k))
    n_lines = text.count("\n") + 1
    for line in range(n_lines):
        for k in range(len(TEXT_INSERTS)):
            result.append(("insert", line, k))
    return result


def _tokens(text: str) -> List[Tuple[int, int]]:
    """Start offsets (line, col) of the tokens of ``text``."""
    result = []  # type: List[Tuple[int, int]]
    try:
        for token in tokenize.generate_tokens(io.StringIO(text).readline):
            if token.type in (tokenize.NL, tokenize.NEWLINE, tokenize.INDENT, tokenize.DEDENT, tokenize.ENDMARKER, tokenize.COMMENT):
                continue
            result.append((token.start, token.end))  # type: ignore
    except tokenize.TokenError:
        pass
    return result  # type: ignore


def _offset(lines: List[str], position: Tuple[int, int]) -> int:
    line, col = position
    return sum(len(l) for l in lines[: line - 1]) + col


def apply(text: str, descriptor: Any) -> Optional[str]:
    """Render the deviation; ``None`` if it does not change anything."""
    kind = descriptor[0]
    if kind in ("truncate", "drop-token", "insert"):
        lines = text.splitlines(keepends=True)
        if kind == "insert":
            _, line, k = descriptor
            if line >= len(lines):
                return text + TEXT_INSERTS[k]
            return "".join(lines[:line]) + TEXT_INSERTS[k] + "".join(lines[line:])
        tokens = _tokens(text)
        _, k = descriptor
        start, end = tokens[k]  # type: ignore
        if kind == "truncate":
            return text[: _offset(lines, start)]  # type: ignore
        return text[: _offset(lines, start)] + text[_offset(lines, end) :]  # type: ignore

    tree = copy.deepcopy(_parsed(text))
    path = tuple((field, index) for field, index in descriptor[1])
    parent, field, index = _get(tree, path)  # type: ignore
    if kind == "delete":
        del getattr(parent, field)[index]
    elif kind == "duplicate":
        getattr(parent, field).insert(index, copy.deepcopy(getattr(parent, field)[index]))
    elif kind == "swap":
        items = getattr(parent, field)
        items[index], items[index + 1] = items[index + 1], items[index]
    elif kind == "expr":
        _set(tree, path, _expr(EXPR_MENUS[int(descriptor[3])][descriptor[2]]))  # type: ignore
    elif kind == "annotation":
        _set(tree, path, _expr(ANNOTATION_MENU[descriptor[2]]))  # type: ignore
    elif kind == "string":
        _set(tree, path, ast.Constant(value=STRING_MENU[descriptor[2]]))  # type: ignore
    elif kind == "int":
        _set(tree, path, ast.Constant(value=INT_MENU[descriptor[2]]))  # type: ignore
    elif kind == "stmt":
        _set(tree, path, _stmt(STMT_EXEMPLARS[descriptor[2]]))  # type: ignore
    elif kind == "rename":
        node = getattr(parent, field) if index is None else getattr(parent, field)[index]
        setattr(node, IDENT_FIELDS[type(node)], descriptor[2])
    elif kind == "arity":
        node = getattr(parent, field) if index is None else getattr(parent, field)[index]
        values = list(node.args) + [kw.value for kw in node.keywords]
        count = descriptor[2]
        while len(values) < count:
            values.append(ast.Constant(value="filler") if len(values) % 2 else ast.List(elts=[], ctx=ast.Load()))
        node.args = values[:count]
        node.keywords = []
    elif kind == "kw-to-unknown":
        node = getattr(parent, field) if index is None else getattr(parent, field)[index]
        node.keywords[descriptor[2]].arg = "unknown_keyword"
    else:
        raise AssertionError(kind)
    ast.fix_missing_locations(tree)
    try:
        return ast.unparse(tree) + "\n"
    except Exception:
        return None


_PARSED = {}  # type: Dict[int, Tuple[str, ast.AST]]


def _parsed(text: str) -> ast.AST:
    key = hash(text)
    cached = _PARSED.get(key)
    if cached is None or cached[0] != text:
        cached = (text, ast.parse(text))
        _PARSED[key] = cached
    return cached[1]


def mutants_of_shard(seed: str, menu: int, index: int, slices: int) -> Iterator[Tuple[Any, str]]:
    """The mutants (descriptor, text) of one slice of the seed's neighbourhood."""
    text = seed_text(seed)
    seen = set()
    for number, descriptor in enumerate(descriptors(text, menu)):
        if number % slices != index:
            continue
        mutant = apply(text, descriptor)
        if mutant is None or mutant in seen:
            continue
        seen.add(mutant)
        yield descriptor, mutant
