"""
The model / document space shared by C11, C12 (JSON Schema) and C13, C14 (XSD):
constraint menus x property types x placements, boundary instances, and the reference
verdict (evaluation of the invariants as Python).
"""
from __future__ import annotations

import itertools
import math
from typing import Any, Dict, Iterator, List, Optional, Sequence, Tuple

from verif import sdk

PATTERNS = {
    "lower": "^[a-z]+$",
    "counted": "^a{1,2}b?$",
    "hex-escapes": "^[\\x41-\\x5a]*$",
    "astral": "^[\\U00010000-\\U0010FFFF]+$",
    "astral-three-blocks": "^[\\U0001F300-\\U0001FAFF]+$",
    "astral-two-blocks": "^[\\U0001F3F0-\\U0001F40F]+$",
    "astral-one-block": "^[\\U0001F600-\\U0001F64F]+$",
    "bmp-and-astral": "^[a-z\\U0001F300-\\U0001F7FF]+$",
    "dot": "^a.$",
    "alternation": "^(ab|b)+$",
}

VERBATIM = "".join(
    f'''\
@verification
def matches_{name.replace("-", "_")}(text: str) -> bool:
    """Check that :paramref:`text` matches."""
    pattern = {pattern!r}
    return match(pattern, text) is not None


'''
    for name, pattern in PATTERNS.items()
)

# constraint menus: list of (family, [(template over `X`, (kind, detail))])
LEN_MENUS = [
    ("min1", [("len(X) >= 1", ("min", 1))]),
    ("max2", [("len(X) <= 2", ("max", 2))]),
    ("min1-max3", [("len(X) >= 1", ("min", 1)), ("len(X) <= 3", ("max", 3))]),
    ("exact2", [("len(X) == 2", ("exact", 2))]),
    ("gt0-lt3", [("len(X) > 0", ("min", 1)), ("len(X) < 3", ("max", 2))]),
    ("reversed-operands", [("1 <= len(X)", ("min", 1)), ("4 > len(X)", ("max", 3))]),
    # the same side of the bound stated twice (the tighter one by the descendant)
    ("max3-max2", [("len(X) <= 3", ("max", 3)), ("len(X) <= 2", ("max", 2))]),
    ("min1-min2", [("len(X) >= 1", ("min", 1)), ("len(X) >= 2", ("min", 2))]),
]
PATTERN_MENUS = [
    (f"pattern-{name}", [(f"matches_{name.replace('-', '_')}(X)", ("pattern", name))])
    for name in PATTERNS
] + [
    ("max2-and-lower", [("len(X) <= 2", ("max", 2)), ("matches_lower(X)", ("pattern", "lower"))]),
    # several patterns on one value (intersected for XSD), alone and with different bounds
    ("two-patterns", [("matches_lower(X)", ("pattern", "lower")), ("matches_counted(X)", ("pattern", "counted"))]),
    ("two-patterns-max1", [("matches_lower(X)", ("pattern", "lower")), ("matches_counted(X)", ("pattern", "counted")), ("len(X) <= 1", ("max", 1))]),
    ("two-patterns-max3", [("matches_lower(X)", ("pattern", "lower")), ("matches_counted(X)", ("pattern", "counted")), ("len(X) <= 3", ("max", 3))]),
]

TYPES_LEN_ONLY = ["bytearray", "Optional[bytearray]", "List[Item]", "Optional[List[Item]]", "List[str]"]
TYPES_STR = ["str", "Optional[str]"]
PLACEMENTS = ["own", "ancestor", "split"]


def guard(annotation: str, expr: str) -> str:
    if annotation.startswith("Optional["):
        return f"not (self.p is not None) or ({expr})"
    return expr


def models(tier: str) -> Iterator[Tuple[Dict[str, Any], sdk.Spec]]:
    """(info, spec) of every model; the class under test is ``Subject``, property ``p``."""
    for annotation in TYPES_STR + TYPES_LEN_ONLY:
        menus = LEN_MENUS + (PATTERN_MENUS if annotation in TYPES_STR else [])
        for family, menu in menus:
            for placement in PLACEMENTS:
                if placement == "split" and len(menu) < 2:
                    continue
                invariants = [
                    (guard(annotation, template.replace("X", "self.p")), f"Constraint {index} on p.")
                    for index, (template, _) in enumerate(menu)
                ]
                if placement == "own":
                    ancestor_invs, own_invs = [], invariants
                elif placement == "ancestor":
                    ancestor_invs, own_invs = invariants, []
                else:
                    ancestor_invs, own_invs = invariants[:1], invariants[1:]
                if placement == "own":
                    classes = [
                        sdk.Cls("Item", [("count", "int")]),
                        sdk.Cls("Subject", [("p", annotation), ("other", "Optional[int]")], invariants=own_invs),
                    ]
                else:
                    classes = [
                        sdk.Cls("Item", [("count", "int")]),
                        sdk.Cls("Ancestor", [("p", annotation)], abstract=True, model_type=True, invariants=ancestor_invs),
                        sdk.Cls("Subject", [("other", "Optional[int]")], bases=["Ancestor"], invariants=own_invs),
                        sdk.Cls("Sibling", [], bases=["Ancestor"]),
                    ]
                info = {
                    "annotation": annotation, "family": family, "placement": placement,
                    "constraints": [list(detail) for _, detail in menu],
                    "enforced_by_own_or_ancestor_declaration": (
                        [list(detail) for _, detail in menu] if placement != "split" else [list(menu[0][1])]
                    ),
                }
                yield info, sdk.Spec(classes=classes, verbatim_before=VERBATIM)
    # constrained primitives
    for annotation in ["Tag", "Optional[Tag]", "List[Tag]"]:
        for family, menu in LEN_MENUS + PATTERN_MENUS:
            for placement in ("cprim", "cprim-chain", "cprim-chain3-reversed"):
                if placement != "cprim" and len(menu) < 2:
                    continue
                invariants = [
                    (template.replace("X", "self"), f"Constraint {index} on the text.")
                    for index, (template, _) in enumerate(menu)
                ]
                if placement == "cprim":
                    cprims = [sdk.CPrim("Tag", "str", invariants)]
                    used = annotation
                elif placement == "cprim-chain3-reversed":
                    # three levels, the descendants declared first in the source
                    cprims = [
                        sdk.CPrim("Tag", "str", invariants[2:], parent="Middle_tag"),
                        sdk.CPrim("Middle_tag", "str", invariants[1:2], parent="Basic_tag"),
                        sdk.CPrim("Basic_tag", "str", invariants[:1]),
                    ]
                    used = annotation
                else:
                    cprims = [
                        sdk.CPrim("Basic_tag", "str", invariants[:1]),
                        sdk.CPrim("Tag", "str", invariants[1:], parent="Basic_tag"),
                    ]
                    used = annotation
                classes = [
                    sdk.Cls("Item", [("count", "int")]),
                    sdk.Cls("Subject", [("p", used), ("other", "Optional[int]")]),
                ]
                info = {
                    "annotation": annotation, "family": family, "placement": placement,
                    "constraints": [list(detail) for _, detail in menu],
                    "enforced_by_own_or_ancestor_declaration": [list(detail) for _, detail in menu],
                }
                yield info, sdk.Spec(cprims=cprims, classes=classes, verbatim_before=VERBATIM)


# --------------------------------------------------------------------------------------
# Instances
# --------------------------------------------------------------------------------------

STR_VALUES = [""] + [
    "".join(combo)
    for n in (1, 2, 3)
    for combo in itertools.product(["a", "b", "A", "\U00010000", " "], repeat=n)
] + ["aaaa", "abab", "\U0010FFFF\U00010000\U00010400\U0001F600", "a\n", "ab\n"] + [
    # the ends and the inner blocks of the astral ranges of the pattern menu
    chr(point)
    for point in (
        0x1F2FF, 0x1F300, 0x1F3EF, 0x1F3F0, 0x1F3FF, 0x1F400, 0x1F40F, 0x1F410, 0x1F5FF, 0x1F600,
        0x1F64F, 0x1F650, 0x1F7FF, 0x1F800, 0x1FAFF, 0x1FB00,
    )
] + ["\U0001F400a", "a\U0001F7FF", "\U0001F300\U0001FAFF"]
BYTE_VALUES = [b"x" * n for n in range(0, 6)]


def values_for(annotation: str) -> List[Any]:
    inner = annotation
    optional = inner.startswith("Optional[")
    if optional:
        inner = inner[len("Optional[") : -1]
    if inner in ("str", "Tag"):
        values = list(STR_VALUES)  # type: List[Any]
    elif inner == "bytearray":
        values = list(BYTE_VALUES)
    elif inner == "List[Item]":
        values = [[{"__class__": "Item", "count": k} for k in range(n)] for n in range(0, 6)]
    elif inner == "List[str]":
        values = [["s"] * n for n in range(0, 6)]
    elif inner == "List[Tag]":
        values = [[]] + [[v] for v in STR_VALUES[:40]] + [["a", v] for v in STR_VALUES[:12]]
    else:
        raise ValueError(annotation)
    if optional:
        values = [None] + values
    return values


def instances(spec: sdk.Spec, annotation: str) -> Iterator[Dict[str, Any]]:
    for value in values_for(annotation):
        instance = {"__class__": "Subject"}
        for name, _ in spec.all_props("Subject"):
            instance[name] = value if name == "p" else None
        yield instance


def false_invariants(env: sdk.RefEnv, spec: sdk.Spec, instance: Dict[str, Any]) -> Optional[List[str]]:
    """Bodies of the invariants which are false on the instance; None if one raises."""
    false = []  # type: List[str]
    obj = env.to_object(instance)
    try:
        for body, _ in spec.all_invariants("Subject"):
            if not env.eval_invariant(body, obj):
                false.append(body)
        annotation = dict(spec.all_props("Subject"))["p"]
        typ = sdk.parse_type(spec, annotation)
        if typ[0] == "opt":
            typ = typ[1]
        value = instance["p"]
        if value is not None:
            texts = []  # type: List[Any]
            if typ[0] == "cprim":
                texts, cprim = [value], typ[1]
            elif typ[0] == "list" and typ[1][0] == "cprim":
                texts, cprim = list(value), typ[1][1]
            for text in texts:
                for body, _ in spec.cprim_invariants(cprim):
                    if not env.eval_invariant(body, text):
                        false.append(f"{body} @ {text!r}")
    except Exception:
        return None
    return false


def base64_text_length(n: int) -> int:
    return 4 * math.ceil(n / 3)


def utf16_units(text: str) -> str:
    """The string of the UTF-16 code units of ``text`` (one character per unit)."""
    data = text.encode("utf-16-le", "surrogatepass")
    return "".join(chr(data[i] | (data[i + 1] << 8)) for i in range(0, len(data), 2))
