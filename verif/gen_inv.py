"""
G-MM-GEN `invariants`: exhaustive enumeration of invariant expressions over a fixed class
(the productions of ``parse/tree.py``), the model text around them, type-conforming
instances, and the light-weight Python SDK (types + constants + verification).
"""
from __future__ import annotations

import importlib
import itertools
import pathlib
import shutil
import sys
from typing import Any, Dict, Iterator, List, Optional, Sequence, Tuple

from verif import sdk

VERBATIM = '''\
@verification
def matches_word(text: str) -> bool:
    """Check that :paramref:`text` is a lowercase word."""
    pattern = "^[a-z]+$"
    return match(pattern, text) is not None


@verification
def matches_code(text: str) -> bool:
    """Check that :paramref:`text` is a code."""
    letter = "[A-Z]"
    digits = f"[0-9]{{1,2}}"
    pattern = f"^{letter}{digits}(-{letter})?$"
    return match(pattern, text) is not None


@verification
def is_short(text: str) -> bool:
    """Check that :paramref:`text` is short."""
    return len(text) < 3


@verification
def all_positive(numbers: List[int]) -> bool:
    """Check that all :paramref:`numbers` are positive."""
    return all(number > 0 for number in numbers)


Keywords: Set[str] = constant_set(values=["a", "abc"])

Numbers: Set[int] = constant_set(values=[1, 5])

Warm: Set[Color] = constant_set(values=[Color.Red])
'''

HOLDER_PROPS = [
    ("b", "bool"), ("i", "int"), ("f", "float"), ("s", "str"), ("y", "bytearray"),
    ("e", "Color"), ("c", "Item"), ("os", "Optional[str]"), ("oi", "Optional[int]"),
    ("oc", "Optional[Item]"), ("li", "List[int]"), ("lk", "List[Item]"),
    ("olk", "Optional[List[Item]]"), ("ns", "Tag"), ("ls", "List[str]"),
]

# (expression, static type tag) - the tag only labels signatures, it decides nothing
ATOMS = [
    ("self.b", "bool"), ("True", "bool"),
    ("self.i", "int"), ("0", "int"), ("1", "int"), ("len(self.s)", "int"),
    ("len(self.li)", "int"), ("self.c.count", "int"), ("self.li[0]", "int"),
    ("self.f", "float"), ("1.5", "float"),
    ("self.s", "str"), ("'a'", "str"), ("self.ns", "str"), ("self.ls[0]", "str"),
    ("self.y", "bytes"),
    ("self.e", "enum"), ("Color.Red", "enum"),
    ("self.c", "class"),
    ("self.os", "opt-str"), ("self.oi", "opt-int"), ("self.oc", "opt-class"),
    ("self.olk", "opt-list"), ("self.c.label", "opt-str"),
    ("self.li", "list-int"), ("self.lk", "list-class"), ("self.ls", "list-str"),
    ("self.oc.count", "int-via-opt"), ("len(self.os)", "int-via-opt"),
]
COMPARATORS = ["==", "!=", "<", "<=", ">", ">="]

GUARDS = [
    ("self.os is not None", "self.os"), ("self.oi is not None", "self.oi"),
    ("self.oc is not None", "self.oc"), ("self.olk is not None", "self.olk"),
    ("self.b", None),
]
CONSEQUENTS = [
    "len(self.os) > 1", "self.oi > 0", "self.oc.count > 0", "len(self.olk) > 0",
    "self.os == 'a'", "matches_word(self.os)", "self.oi in Numbers",
    "all(item.count > 0 for item in self.olk)", "self.oc.label is None",
]


def expressions(depth: int) -> Iterator[Tuple[str, str, str]]:
    """(production, operand tags, lambda body) of every expression, simplest first."""
    seen = set()

    def emit(production: str, tags: str, body: str) -> Iterator[Tuple[str, str, str]]:
        if body not in seen:
            seen.add(body)
            yield production, tags, body

    for atom, tag in ATOMS:
        yield from emit("atom", tag, atom)
    for atom, tag in ATOMS:
        yield from emit("is-none", tag, f"{atom} is None")
        yield from emit("is-not-none", tag, f"{atom} is not None")
        yield from emit("not", tag, f"not {atom}")
        yield from emit("not", tag, f"not ({atom})")
    for (left, ltag), (right, rtag) in itertools.product(ATOMS, repeat=2):
        same = ltag.split("-via-")[0] == rtag.split("-via-")[0]
        for op in COMPARATORS if same else ["==", "<"]:
            yield from emit(f"compare:{op}", f"{ltag},{rtag}", f"{left} {op} {right}")
    for atom, tag in ATOMS:
        for name in ("Keywords", "Numbers", "Warm"):
            yield from emit(f"in:{name}", tag, f"{atom} in {name}")
        for function in ("matches_word", "matches_code", "is_short", "all_positive", "len"):
            yield from emit(f"call:{function}", tag, f"{function}({atom})")
        yield from emit("len-compare", tag, f"len({atom}) > 0")
        yield from emit("index", tag, f"{atom}[0] == 0")
        yield from emit("index", tag, f"{atom}[0] == 'a'")
        yield from emit("member", tag, f"{atom}.count > 0")
        yield from emit("all-foreach", tag, f"all(x > 0 for x in {atom})")
        yield from emit("any-foreach", tag, f"any(x == 'a' for x in {atom})")
        yield from emit("all-foreach-member", tag, f"all(x.count > 0 for x in {atom})")
        yield from emit("all-foreach-len", tag, f"all(len(x) > 0 for x in {atom})")
        yield from emit("all-forrange", tag, f"all({atom}[j] > 0 for j in range(len({atom})))")
        yield from emit("all-forrange-const", tag, f"all(j >= 0 for j in range({atom}))")
        yield from emit("all-foreach-if", tag, f"all(x > 1 for x in {atom} if x != 1)")
    junction_atoms = [a for a in ATOMS if a[0] in (
        "self.b", "True", "self.i", "self.s", "self.os", "self.li", "self.c", "self.e", "self.f"
    )]
    for (left, ltag), (right, rtag) in itertools.product(junction_atoms, repeat=2):
        yield from emit("and", f"{ltag},{rtag}", f"{left} and {right}")
        yield from emit("or", f"{ltag},{rtag}", f"{left} or {right}")
    arithmetic_atoms = [a for a in ATOMS if a[0] in (
        "self.i", "1", "self.f", "self.s", "'a'", "self.oi", "self.li", "self.b", "self.y", "len(self.s)"
    )]
    for (left, ltag), (right, rtag) in itertools.product(arithmetic_atoms, repeat=2):
        yield from emit("add", f"{ltag},{rtag}", f"{left} + {right} > 0")
        yield from emit("sub", f"{ltag},{rtag}", f"{left} - {right} == 0")
        yield from emit("add-str", f"{ltag},{rtag}", f"{left} + {right} == 'aa'")
    # implications and guards (non-nullness must flow from the guard to the consequent)
    for (guard, _), consequent in itertools.product(GUARDS, CONSEQUENTS):
        yield from emit("implication", "guard", f"not ({guard}) or ({consequent})")
        yield from emit("implication-bare", "guard", f"not {guard} or {consequent}")
        yield from emit("and-guard", "guard", f"{guard} and {consequent}")
        yield from emit("or-guard", "guard", f"{guard} or {consequent}")
        yield from emit("reversed-guard", "guard", f"{consequent} or not ({guard})")
    for guard, subject in GUARDS:
        if subject is None:
            continue
        for consequent in CONSEQUENTS:
            yield from emit("is-none-or", "guard", f"{subject} is None or {consequent}")
            yield from emit("is-none-and", "guard", f"{subject} is None and {consequent}")
    # precedence and associativity: compound operands under every binary operator (the
    # source is parenthesised where needed; the transpiler has to keep the grouping)
    compound = [
        "self.os is None", "self.oi is not None", "self.i > 0", "self.b", "not self.b",
        "self.b and self.i > 0", "self.b or self.i > 1", "self.i in Numbers", "self.i == 1",
        "self.s == 'a'", "len(self.li) > 1",
    ]
    for left, right in itertools.product(compound, repeat=2):
        for op in ("==", "!="):
            yield from emit("precedence-compare", "bool,bool", f"({left}) {op} ({right})")
        yield from emit("precedence-not", "bool,bool", f"not ({left}) == ({right})")
        yield from emit("precedence-not", "bool,bool", f"(not ({left})) == ({right})")
        yield from emit("precedence-junction", "bool,bool", f"({left}) and not ({right})")
        yield from emit("precedence-junction", "bool,bool", f"not (({left}) or ({right}))")
    for first, second, third in itertools.product(compound[:7], repeat=3):
        yield from emit("precedence-mixed", "bool,bool,bool", f"({first}) and (({second}) or ({third}))")
        yield from emit("precedence-mixed", "bool,bool,bool", f"(({first}) and ({second})) or ({third})")
        yield from emit("precedence-mixed", "bool,bool,bool", f"({first}) or ({second}) and ({third})")
    numbers = ["self.i", "1", "len(self.s)", "self.c.count", "self.i + 1", "self.i - 2"]
    for a, b, c in itertools.product(numbers, repeat=3):
        yield from emit("precedence-arithmetic", "int,int,int", f"{a} - ({b} - {c}) == 1")
        yield from emit("precedence-arithmetic", "int,int,int", f"{a} - ({b} + {c}) == -1")
        yield from emit("precedence-arithmetic", "int,int,int", f"({a} - {b}) - {c} < 0")
        yield from emit("precedence-arithmetic", "int,int,int", f"{a} + ({b} - {c}) > 1")
    # compound antecedents: non-nullness may flow out of a conjunction, never out of a
    # disjunction
    others = ["self.b", "self.i > 0", "self.oi is not None"]
    for (guard, subject), other, consequent in itertools.product(GUARDS[:4], others, CONSEQUENTS):
        if guard == other:
            continue
        yield from emit("antecedent-or", "guard", f"not ({guard} or {other}) or ({consequent})")
        yield from emit("antecedent-and", "guard", f"not ({guard} and {other}) or ({consequent})")
        yield from emit("antecedent-and", "guard", f"not ({other} and {guard}) or ({consequent})")
        yield from emit("conjunction-or", "guard", f"({guard} or {other}) and ({consequent})")
        yield from emit("conjunction-and", "guard", f"({guard} and {other}) and ({consequent})")
        yield from emit("antecedent-negated-parts", "guard", f"not ({guard}) or not ({other}) or ({consequent})")
    if depth < 2:
        return
    level1 = [
        "self.b", "self.i > 0", "self.s == 'a'", "self.os is not None", "self.os is None",
        "len(self.os) > 1", "self.oi is not None", "self.oi > 0", "matches_word(self.s)",
        "self.e in Warm", "all(x > 0 for x in self.li)", "self.oc is not None",
        "self.oc.count > 0", "len(self.li) > self.i",
    ]
    for left, right in itertools.product(level1, repeat=2):
        yield from emit("and2", "bool,bool", f"({left}) and ({right})")
        yield from emit("or2", "bool,bool", f"({left}) or ({right})")
        yield from emit("implication2", "bool,bool", f"not ({left}) or ({right})")
        yield from emit("not-and2", "bool,bool", f"not (({left}) and ({right}))")
    for first, second, third in itertools.product(level1[:9], repeat=3):
        yield from emit("implication3", "bool,bool,bool", f"not (({first}) and ({second})) or ({third})")
        yield from emit("nested-or3", "bool,bool,bool", f"(({first}) or ({second})) and ({third})")


def base_spec(
    holder_invariants: Sequence[Tuple[str, str]],
    item_invariants: Sequence[Tuple[str, str]] = (),
    tag_invariants: Sequence[Tuple[str, str]] = (("len(self) >= 1", "Tag must not be empty."),),
) -> sdk.Spec:
    return sdk.Spec(
        enums={"Color": [("Red", "red"), ("Green", "green")]},
        cprims=[sdk.CPrim("Tag", "str", list(tag_invariants))],
        classes=[
            sdk.Cls("Item", [("count", "int"), ("label", "Optional[str]")], invariants=list(item_invariants)),
            sdk.Cls("Holder", HOLDER_PROPS, invariants=list(holder_invariants)),
        ],
    )


def model_text(spec: sdk.Spec) -> str:
    """Render with the verbatim block between the enumerations and the rest."""
    text = sdk.render(spec)
    marker = "\n\n\n"  # after the enumeration block
    index = text.index(marker) + len(marker)
    return text[:index] + VERBATIM + "\n\n" + text[index:]


def ref_env(spec: sdk.Spec) -> sdk.RefEnv:
    clone = sdk.Spec(spec.enums, spec.cprims, spec.classes, verbatim_after=VERBATIM)
    return sdk.RefEnv(clone)


# --------------------------------------------------------------------------------------
# Instances
# --------------------------------------------------------------------------------------


def item(count: int = 1, label: Optional[str] = None) -> Dict[str, Any]:
    return {"__class__": "Item", "count": count, "label": label}


def red() -> Tuple[str, str, str]:
    return ("enum", "Color", "Red")


def instances() -> List[Dict[str, Any]]:
    full = {
        "__class__": "Holder", "b": True, "i": 1, "f": 1.5, "s": "a", "y": b"ab", "e": red(),
        "c": item(), "os": "ab", "oi": 5, "oc": item(2, "x"), "li": [1, 2], "lk": [item(), item(0)],
        "olk": [item(3)], "ns": "a", "ls": ["a", ""],
    }
    empty = dict(full)
    empty.update({"os": None, "oi": None, "oc": None, "olk": None})
    result = [full, empty]
    menus = {
        "b": [False], "i": [0, -1, 5], "f": [0.0, -2.5], "s": ["", "abc", "Abc", "A1", "A12-B"],
        "y": [b""], "e": [("enum", "Color", "Green")], "c": [item(0), item(-1, "")],
        "os": ["", "a", "abc"], "oi": [0, 1, -3], "oc": [item(0)], "li": [[], [0], [-1, 3]],
        "lk": [[], [item(0)]], "olk": [[], [item(0), item(1)]], "ns": ["", "abc"],
        "ls": [[], ["b"]],
    }
    for base in (full, empty):
        for name, values in menus.items():
            for value in values:
                variant = dict(base)
                variant[name] = value
                result.append(variant)
    return result


# --------------------------------------------------------------------------------------
# Light-weight SDK: exactly the generator calls of python/main.py for four modules
# --------------------------------------------------------------------------------------

_COUNTER = itertools.count()


class LightSdk:
    def __init__(self, package: str, root: pathlib.Path) -> None:
        self.package = package
        self.root = root
        sys.path.insert(0, str(root))
        try:
            self.types = importlib.import_module(f"{package}.types")
            self.constants = importlib.import_module(f"{package}.constants")
            self.verification = importlib.import_module(f"{package}.verification")
        finally:
            sys.path.remove(str(root))

    def close(self) -> None:
        for name in list(sys.modules):
            if name == self.package or name.startswith(self.package + "."):
                del sys.modules[name]
        shutil.rmtree(self.root, ignore_errors=True)

    build = sdk.PythonSdk.build
    spec_name = sdk.PythonSdk.spec_name


def front_end(text: str, base: pathlib.Path) -> Tuple[Optional[Any], Optional[str]]:
    """(symbol table, None) or (None, error report); exceptions propagate."""
    from aas_core_codegen import run

    base.mkdir(parents=True, exist_ok=True)
    model_path = base / "model.py"
    model_path.write_text(text, encoding="utf-8")
    result, error = run.load_model(model_path, cache_model=False)
    if error is not None:
        return None, error
    assert result is not None
    return result[0], None


def generate_light(
    symbol_table: Any, base: pathlib.Path, with_import: bool
) -> Tuple[Optional[LightSdk], Optional[str]]:
    """
    Call the Python generators the way ``python/main.py`` does (verification, types,
    constants, common).  Returns (sdk or None, errors as text or None).
    """
    from aas_core_codegen import specific_implementations
    from aas_core_codegen.python import common as python_common
    from aas_core_codegen.python import lib as python_lib

    package = f"vlight{next(_COUNTER)}"
    qualified = python_common.QualifiedModuleName(package)
    spec_impls = {}  # type: ignore
    errors = python_lib.verify_for_verification(
        spec_impls=spec_impls, verification_functions=symbol_table.verification_functions
    )
    if errors is not None:
        return None, "; ".join(str(e) for e in errors)
    code_verification, errors = python_lib.generate_verification(
        symbol_table=symbol_table, qualified_module_name=qualified, spec_impls=spec_impls
    )
    if errors is not None:
        return None, "; ".join(e.message if hasattr(e, "message") else str(e) for e in errors)
    if not with_import:
        return None, None
    code_types, errors = python_lib.generate_types(
        symbol_table=symbol_table, qualified_module_name=qualified, spec_impls=spec_impls
    )
    assert errors is None, errors
    code_constants, errors = python_lib.generate_constants(
        symbol_table=symbol_table, qualified_module_name=qualified
    )
    assert errors is None, errors
    root = base / f"light-{package}"
    directory = root / package
    directory.mkdir(parents=True)
    (directory / "__init__.py").write_text("", encoding="utf-8")
    (directory / "common.py").write_text(python_lib.generate_common(), encoding="utf-8")
    (directory / "types.py").write_text(code_types, encoding="utf-8")
    (directory / "constants.py").write_text(code_constants, encoding="utf-8")
    (directory / "verification.py").write_text(code_verification, encoding="utf-8")
    return LightSdk(package, root), None
