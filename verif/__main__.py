import sys

from verif import core

if __name__ == "__main__":
    sys.exit(core.main())
