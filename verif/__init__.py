"""Bounded exhaustive exploration checks for aas-core-codegen (see /verif/DESIGN.md)."""
