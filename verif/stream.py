"""
The shared exploration stream over G-MM-DEV mutants (used by C01, C02, C03, C04, C06,
C28): front-end observation of one meta-model text on the real code.
"""
from __future__ import annotations

import pathlib
import re
import shutil
from typing import Any, Dict, List, Optional, Tuple

from verif import gen_dev, harness

SLICES = 16


class FrontEnd:
    """What the real front end did with one text."""

    def __init__(self) -> None:
        self.stage = "?"  # syntax | imports | parse | translate | accepted | crash
        self.result = None  # type: Optional[Tuple[Any, Any]]
        self.error = None  # type: Optional[str]
        self.crash = None  # type: Optional[BaseException]
        self.syntactically_valid = False


def classify_error(message: str) -> str:
    if message.startswith("Failed to parse the meta-model: invalid syntax") or message.startswith(
        "Failed to parse the meta-model:"
    ):
        return "syntax"
    if message.startswith("One or more unexpected imports"):
        return "imports"
    if message.startswith("Failed to construct the symbol table"):
        return "parse"
    if message.startswith("Failed to translate the parsed symbol table"):
        return "translate"
    return "other"


def load(model_path: pathlib.Path) -> FrontEnd:
    """Run ``run.load_model`` (uncached) and classify the outcome."""
    from aas_core_codegen import run

    observation = FrontEnd()
    try:
        text = model_path.read_text(encoding="utf-8")
        try:
            compile(text, "<model>", "exec", flags=0x400, dont_inherit=True)  # PyCF_ONLY_AST
            observation.syntactically_valid = True
        except (SyntaxError, ValueError, RecursionError, MemoryError):
            observation.syntactically_valid = False
    except Exception:
        pass
    try:
        result, error = run.load_model(model_path, cache_model=False)
    except Exception as exc:
        observation.stage = "crash"
        observation.crash = exc
        return observation
    if (result is None) == (error is None):
        observation.stage = "not-xor"
        return observation
    if error is not None:
        observation.error = error
        observation.stage = classify_error(error)
    else:
        observation.result = result
        observation.stage = "accepted"
    return observation


class _StopAfterFrontEnd(Exception):
    """Abort ``main.execute`` once the front end accepted the model."""


def load_through_execute(
    model_path: pathlib.Path, snippets_dir: pathlib.Path, output_dir: pathlib.Path
) -> Tuple[FrontEnd, Optional[int], str, str]:
    """
    Run ``main.execute`` with ``run.load_model`` wrapped by a recorder, so that one call
    yields both the front-end observation and the CLI contract for rejected models.
    The generator is not run (the recorder stops ``execute`` after an accepted load).
    """
    import io

    from aas_core_codegen import main as codegen_main
    from aas_core_codegen import run

    observation = FrontEnd()
    try:
        text = model_path.read_text(encoding="utf-8")
        compile(text, "<model>", "exec", flags=0x400, dont_inherit=True)
        observation.syntactically_valid = True
    except Exception:
        observation.syntactically_valid = False

    original = run.load_model

    def recording(model_path: pathlib.Path, cache_model: bool = False) -> Any:
        try:
            result, error = original(model_path=model_path, cache_model=cache_model)
        except Exception as exc:
            observation.stage = "crash"
            observation.crash = exc
            raise
        if (result is None) == (error is None):
            observation.stage = "not-xor"
        elif error is not None:
            observation.error = error
            observation.stage = classify_error(error)
        else:
            observation.result = result
            observation.stage = "accepted"
            raise _StopAfterFrontEnd()
        return result, error

    params = codegen_main.Parameters(
        model_path=model_path,
        target=codegen_main.Target.JSONSCHEMA,
        snippets_dir=snippets_dir,
        output_dir=output_dir,
    )
    stdout, stderr = io.StringIO(), io.StringIO()
    rc = None  # type: Optional[int]
    run.load_model = recording  # type: ignore
    try:
        rc = codegen_main.execute(params, stdout=stdout, stderr=stderr)
    except _StopAfterFrontEnd:
        pass
    except Exception as exc:
        if observation.crash is None:
            # an exception of ``execute`` itself, outside of the front end
            observation.stage = "execute-crash"
            observation.crash = exc
    finally:
        run.load_model = original  # type: ignore
    return observation, rc, stdout.getvalue(), stderr.getvalue()


_TEMPLATE_RE = re.compile(r"'[^'\n]*'|\"[^\"\n]*\"|\d+|`[^`\n]*`")


def message_template(error: str) -> str:
    """The innermost message of a report with literals blanked (an outcome class)."""
    lines = [line.strip() for line in error.strip().splitlines() if line.strip()]
    if not lines:
        return "<empty>"
    last = lines[-1]
    last = re.sub(r"^At line \d+ and column \d+: ", "", last)
    last = re.sub(r"^\* ", "", last)
    return _TEMPLATE_RE.sub("_", last)[:70]


def shards(tier: str) -> List[Any]:
    """Shards of the mutant stream: (seed, expression menu, slice, slices)."""
    result = []  # type: List[Any]
    for seed in gen_dev.seed_names(tier):
        if tier == "thorough":
            menu = 1
        else:
            menu = 2 if seed == "kitchen_sink" else 0
        slices = SLICES * (3 if seed == "kitchen_sink" else 1)
        for index in range(slices):
            result.append((seed, menu, index, slices))
    return result


def write_model(base: pathlib.Path, text: str) -> pathlib.Path:
    base.mkdir(parents=True, exist_ok=True)
    path = base / "model.py"
    path.write_text(text, encoding="utf-8", errors="surrogatepass")
    return path


_SNIPPETS = {}  # type: Dict[Tuple[str, str], pathlib.Path]


def snippets_for(seed: str, target: str, base: pathlib.Path) -> pathlib.Path:
    """The snippets of the seed for the target (repository's own, else synthesised)."""
    key = (seed, target)
    cached = _SNIPPETS.get(key)
    if cached is not None and cached.is_dir():
        return cached
    path = harness.repo_snippets_dir(target, seed) if seed != "kitchen_sink" else None
    if path is None:
        root = gen_dev.first_concrete_class(gen_dev.seed_text(seed))
        path = harness.synth_snippets(target, base / f"snippets-{seed}-{target}", root)
    _SNIPPETS[key] = path
    return path
