"""
Explorer core shared by all checks: sharded exhaustive enumeration over a process pool,
signature-keyed known findings, replay files and evidence files.

A check module (``verif.checks.cXX``) provides:

* ``ID``: property identifier, e.g. ``"C27"``
* ``META``: dict with ``rule``, ``assumptions``, ``bounds`` (dict tier -> text),
  ``technique``
* ``shards(tier) -> List[shard]``: picklable work units which *partition* the bounded
  space (no case is in two shards)
* ``work(shard) -> Result``: explores the shard exhaustively on the real implementation
* ``replay(case) -> List[Violation]``: re-runs exactly one case through the same oracle
* optionally ``finish(agg, tier) -> None`` to post-process aggregated results (e.g. to
  add global violations) and ``setup(tier)`` run once in the parent before forking.
"""
from __future__ import annotations

import argparse
import contextlib
import dataclasses
import hashlib
import importlib
import json
import multiprocessing
import os
import pathlib
import re
import shutil
import signal
import sys
import tempfile
import time
import traceback
from typing import Any, Dict, Iterator, List, Optional, Sequence, Set, Tuple

VERIF_DIR = pathlib.Path(__file__).resolve().parent.parent
REPO_DIR = pathlib.Path(os.environ.get("VERIF_REPO", "/repo"))
KNOWN_PATH = VERIF_DIR / "KNOWN_FINDINGS.txt"
# The two overrides exist for trial runs against deliberately broken trees (tools/try_seed.sh)
# so that they do not overwrite the committed evidence and replays.
EVIDENCE_DIR = pathlib.Path(os.environ.get("VERIF_EVIDENCE_DIR", VERIF_DIR / "evidence"))
REPLAY_DIR = pathlib.Path(os.environ.get("VERIF_REPLAY_DIR", VERIF_DIR / "replays"))

N_WORKERS = int(os.environ.get("VERIF_WORKERS", "16"))


# --------------------------------------------------------------------------------------
# Data
# --------------------------------------------------------------------------------------


@dataclasses.dataclass
class Violation:
    """One observed breach of the property on one case."""

    signature: str  #: abstraction of *what failed* (key for known findings)
    message: str  #: human-readable one-liner
    case: Any  #: JSON-able payload from which ``replay`` can re-run the case


@dataclasses.dataclass
class Result:
    """What the exploration of one shard covered."""

    evaluations: int = 0  #: cases executed on the implementation
    nontrivial: int = 0  #: distinct cases that are non-trivial by the check's rule
    states: int = 0  #: distinct states / cases after canonicalisation
    transitions: int = 0  #: expansion steps / oracle evaluations / scheduler steps
    outcomes: Set[str] = dataclasses.field(default_factory=set)
    violations: List[Violation] = dataclasses.field(default_factory=list)
    samples: List[Any] = dataclasses.field(default_factory=list)
    timeouts: int = 0
    caps_hit: List[str] = dataclasses.field(default_factory=list)
    skipped_tools: List[str] = dataclasses.field(default_factory=list)
    extra: Dict[str, Any] = dataclasses.field(default_factory=dict)

    def merge(self, other: "Result", max_violations_per_sig: int = 3) -> None:
        self.evaluations += other.evaluations
        self.nontrivial += other.nontrivial
        self.states += other.states
        self.transitions += other.transitions
        self.outcomes |= other.outcomes
        self.timeouts += other.timeouts
        for cap in other.caps_hit:
            if cap not in self.caps_hit:
                self.caps_hit.append(cap)
        for tool in other.skipped_tools:
            if tool not in self.skipped_tools:
                self.skipped_tools.append(tool)
        if len(self.samples) < 8:
            self.samples.extend(other.samples[: 8 - len(self.samples)])
        self.violations.extend(other.violations)
        for key, value in other.extra.items():
            if isinstance(value, (int, float)) and not isinstance(value, bool):
                self.extra[key] = self.extra.get(key, 0) + value
            elif isinstance(value, list):
                self.extra.setdefault(key, [])
                for item in value:
                    if item not in self.extra[key] and len(self.extra[key]) < 50:
                        self.extra[key].append(item)
            elif isinstance(value, dict):
                self.extra.setdefault(key, {})
                for k, v in value.items():
                    if isinstance(v, (int, float)):
                        self.extra[key][k] = self.extra[key].get(k, 0) + v
                    else:
                        self.extra[key][k] = v
            else:
                self.extra[key] = value

    def add_violation(self, signature: str, message: str, case: Any) -> None:
        """Record a violation, keeping at most a few witnesses per signature."""
        count = sum(1 for v in self.violations if v.signature == signature)
        self.extra.setdefault("violating_cases", 0)
        self.extra["violating_cases"] += 1
        if count < 2:
            self.violations.append(Violation(signature, message, case))


# --------------------------------------------------------------------------------------
# Crash signatures
# --------------------------------------------------------------------------------------

_CONTRACT_RE = re.compile(r"File .*?aas_core_codegen/([^,]+), line \d+ in (\w+)")


def crash_signature(exc: BaseException) -> str:
    """
    Abstract an exception escaping the code under test to *where* it was raised.

    No line numbers, so that unrelated edits do not change the signature; for icontract
    violations the violated contract's declaration site is part of the signature.
    """
    frames = [
        frame
        for frame in traceback.extract_tb(exc.__traceback__)
        if "/aas_core_codegen/" in frame.filename
    ]
    if frames:
        site = frames[-1]
        rel = site.filename.split("/aas_core_codegen/", 1)[1]
        sig = f"{type(exc).__name__}@{rel}:{site.name}"
    else:
        sig = f"{type(exc).__name__}@<outside>"
    if type(exc).__name__ == "ViolationError":
        match = _CONTRACT_RE.search(str(exc))
        if match:
            sig += f"|contract:{match.group(1)}:{match.group(2)}"
            # First line of the condition text makes different contracts of the same
            # function distinguishable.
            lines = str(exc).splitlines()
            if len(lines) > 1:
                cond = lines[1].strip()
                cond = re.sub(r"\s+", " ", cond)[:80]
                sig += f"|{cond}"
    return sig


def short_exc(exc: BaseException) -> str:
    text = f"{type(exc).__name__}: {exc}"
    text = text.replace("\n", " ")
    return text[:300]


# --------------------------------------------------------------------------------------
# Timeouts
# --------------------------------------------------------------------------------------


class CaseTimeout(BaseException):
    """Raised by the alarm; a BaseException so that the code under test (and the
    `except Exception` clauses of the oracles) can not take it for a crash."""


@contextlib.contextmanager
def time_limit(seconds: float) -> Iterator[None]:
    def handler(signum: int, frame: Any) -> None:
        raise CaseTimeout()

    previous = signal.signal(signal.SIGALRM, handler)
    signal.setitimer(signal.ITIMER_REAL, seconds)
    try:
        yield
    finally:
        signal.setitimer(signal.ITIMER_REAL, 0)
        signal.signal(signal.SIGALRM, previous)


# --------------------------------------------------------------------------------------
# Known findings
# --------------------------------------------------------------------------------------


@dataclasses.dataclass
class Known:
    property_id: str
    key: str
    what: str


def load_known(property_id: str) -> List[Known]:
    """Read the ``known:`` lines of the committed file (never written at run time)."""
    result = []  # type: List[Known]
    if not KNOWN_PATH.exists():
        return result
    for line in KNOWN_PATH.read_text(encoding="utf-8").splitlines():
        line = line.strip()
        if not line.startswith("known:"):
            continue
        match = re.match(r"known:\s+property=(\S+)\s+key=(.*?)\s+--\s+(.*)$", line)
        if match is None:
            raise SystemExit(f"Malformed line in {KNOWN_PATH}: {line!r}")
        if match.group(1) == property_id:
            result.append(Known(match.group(1), match.group(2), match.group(3)))
    return result


# --------------------------------------------------------------------------------------
# Worker pool
# --------------------------------------------------------------------------------------

_WORK_MODULE = None  # type: Any
_WORKER_TMP = None  # type: Optional[str]


def scratch_root() -> str:
    """Directory for scratch files: RAM-backed when available (removed after the run)."""
    override = os.environ.get("VERIF_SCRATCH")
    if override:
        return override
    if os.path.isdir("/dev/shm") and os.access("/dev/shm", os.W_OK):
        return "/dev/shm"
    return tempfile.gettempdir()


def _worker_init(module_name: str, base_tmp: str) -> None:
    global _WORK_MODULE, _WORKER_TMP
    import warnings

    warnings.simplefilter("ignore")
    _WORK_MODULE = importlib.import_module(module_name)
    _WORKER_TMP = tempfile.mkdtemp(prefix=f"w{os.getpid()}-", dir=base_tmp)
    tempfile.tempdir = _WORKER_TMP
    os.environ["TMPDIR"] = _WORKER_TMP
    if hasattr(_WORK_MODULE, "worker_init"):
        _WORK_MODULE.worker_init()


def worker_tmp() -> pathlib.Path:
    """Return the private scratch directory of this worker (or the parent)."""
    assert _WORKER_TMP is not None
    return pathlib.Path(_WORKER_TMP)


def _worker_run(indexed_shard: Tuple[int, Any]) -> Tuple[int, Result]:
    index, shard = indexed_shard
    assert _WORK_MODULE is not None
    try:
        result = _WORK_MODULE.work(shard)
    except BaseException as exc:  # harness failure, not a finding
        result = Result()
        result.extra["harness_errors"] = [
            f"shard {index}: {short_exc(exc)} :: "
            + " | ".join(
                f"{f.filename.rsplit('/', 1)[-1]}:{f.lineno}:{f.name}"
                for f in traceback.extract_tb(exc.__traceback__)[-4:]
            )
        ]
    return index, result


def run_shards(module_name: str, shards: Sequence[Any], seed: int) -> Result:
    """Run all the shards (every one of them; the seed only rotates the order)."""
    global _WORKER_TMP
    base_tmp = tempfile.mkdtemp(prefix="verif-", dir=scratch_root())
    agg = Result()
    indexed = list(enumerate(shards))
    if indexed:
        rot = seed % len(indexed)
        indexed = indexed[rot:] + indexed[:rot]
    try:
        module = importlib.import_module(module_name)
        workers = min(
            N_WORKERS, getattr(module, "MAX_WORKERS", N_WORKERS), max(1, len(indexed))
        )
        if workers == 1 or os.environ.get("VERIF_INPROCESS") == "1":
            _worker_init(module_name, base_tmp)
            results = [_worker_run(item) for item in indexed]
        else:
            ctx = multiprocessing.get_context("fork")
            with ctx.Pool(
                workers,
                initializer=_worker_init,
                initargs=(module_name, base_tmp),
                maxtasksperchild=int(os.environ.get("VERIF_TASKS_PER_CHILD", "40")),
            ) as pool:
                results = list(pool.imap_unordered(_worker_run, indexed, chunksize=1))
        # Merge in shard order so that evidence does not depend on scheduling
        for _, result in sorted(results, key=lambda pair: pair[0]):
            agg.merge(result)
    finally:
        if tempfile.tempdir is not None and tempfile.tempdir.startswith(base_tmp):
            tempfile.tempdir = None
            os.environ.pop("TMPDIR", None)
            _WORKER_TMP = None
        shutil.rmtree(base_tmp, ignore_errors=True)
    return agg


# --------------------------------------------------------------------------------------
# Main
# --------------------------------------------------------------------------------------


def _jsonable(value: Any) -> Any:
    try:
        json.dumps(value)
        return value
    except (TypeError, ValueError):
        return repr(value)


def write_replay(property_id: str, violation: Violation) -> pathlib.Path:
    payload = {
        "property": property_id,
        "signature": violation.signature,
        "message": violation.message,
        "case": _jsonable(violation.case),
    }
    text = json.dumps(payload, indent=1, sort_keys=True, ensure_ascii=True)
    digest = hashlib.sha256(
        json.dumps(
            [violation.signature, _jsonable(violation.case)], sort_keys=True
        ).encode()
    ).hexdigest()[:16]
    directory = REPLAY_DIR / property_id
    directory.mkdir(parents=True, exist_ok=True)
    path = directory / f"{digest}.json"
    if not path.exists() or path.read_text(encoding="utf-8") != text:
        path.write_text(text, encoding="utf-8")
    return path


def main(argv: Optional[Sequence[str]] = None) -> int:
    parser = argparse.ArgumentParser(prog="vcheck")
    parser.add_argument("check", help="property identifier, e.g. C27")
    parser.add_argument("--tier", choices=["quick", "thorough"], default=None)
    parser.add_argument("--replay", default=None, help="replay file to re-run")
    args = parser.parse_args(argv)

    property_id = args.check.upper()
    tier = args.tier or os.environ.get("VERIF_TIER") or "quick"
    if tier not in ("quick", "thorough"):
        tier = "quick"
    try:
        seed = int(os.environ.get("VERIF_SEED", "0"))
    except ValueError:
        seed = 0

    module_name = f"verif.checks.{property_id.lower()}"
    module = importlib.import_module(module_name)
    assert module.ID == property_id

    if args.replay is not None:
        return _replay(module, property_id, pathlib.Path(args.replay))

    start = time.time()
    if hasattr(module, "setup"):
        module.setup(tier)
    shards = module.shards(tier)
    agg = run_shards(module_name, shards, seed)
    if hasattr(module, "finish"):
        module.finish(agg, tier)
    wall = time.time() - start

    known = load_known(property_id)
    known_by_key = {item.key: item for item in known}

    by_signature = {}  # type: Dict[str, List[Violation]]
    for violation in agg.violations:
        by_signature.setdefault(violation.signature, []).append(violation)

    new_signatures = []  # type: List[str]
    seen_known = []  # type: List[str]
    lines = []  # type: List[str]
    for signature in sorted(by_signature):
        witnesses = by_signature[signature]
        witnesses.sort(key=lambda v: len(json.dumps(_jsonable(v.case))))
        path = write_replay(property_id, witnesses[0])
        if signature in known_by_key:
            seen_known.append(signature)
            lines.append(
                f"KNOWN-FINDING: property={property_id} "
                f"{known_by_key[signature].what} [key={signature}]"
            )
        else:
            new_signatures.append(signature)
            lines.append(
                f"VIOLATION property={property_id} replay={path} "
                f":: {signature} :: {witnesses[0].message}"
            )

    harness_errors = agg.extra.pop("harness_errors", [])

    meta = module.META
    coverage = {
        "evaluations": agg.evaluations,
        "distinct_nontrivial": agg.nontrivial,
        "rule": meta["rule"],
        "samples": [_jsonable(s) for s in agg.samples[:8]],
        "states": agg.states,
        "transitions": agg.transitions,
        "traces_validated_against_impl": agg.evaluations,
        "distinct_outcomes": len(agg.outcomes),
        "outcome_examples": sorted(agg.outcomes)[:12],
        "bounds": meta["bounds"][tier],
        "exhaustive": not agg.caps_hit and agg.timeouts == 0 and not harness_errors,
        "caps_hit": agg.caps_hit,
        "timeouts": agg.timeouts,
        "shards": len(shards),
        "known_findings_seen": seen_known,
        "new_violation_signatures": new_signatures,
        "skipped_tools": agg.skipped_tools,
        "harness_errors": harness_errors,
    }
    for key, value in agg.extra.items():
        coverage.setdefault(key, _jsonable(value))

    evidence = {
        "property_id": property_id,
        "tier": tier,
        "seed": seed,
        "level": "model_checking",
        "coverage": coverage,
        "assumptions": meta["assumptions"],
        "wall_s": round(wall, 2),
        "violations": len(new_signatures),
    }
    EVIDENCE_DIR.mkdir(parents=True, exist_ok=True)
    (EVIDENCE_DIR / f"{property_id}.json").write_text(
        json.dumps(evidence, indent=1, ensure_ascii=True) + "\n", encoding="utf-8"
    )

    for line in lines:
        print(line)
    print(
        f"[{property_id} {tier}] evaluations={agg.evaluations} states={agg.states} "
        f"transitions={agg.transitions} nontrivial={agg.nontrivial} "
        f"outcomes={len(agg.outcomes)} known={len(seen_known)} "
        f"new={len(new_signatures)} timeouts={agg.timeouts} wall={wall:.1f}s"
    )
    if harness_errors:
        # A harness failure is not a finding about the repository, but the run is not
        # a pass either: coverage is incomplete.
        for err in harness_errors[:10]:
            print(f"HARNESS-ERROR property={property_id} {err}")
        return 2
    return 1 if new_signatures else 0


def _replay(module: Any, property_id: str, path: pathlib.Path) -> int:
    payload = json.loads(path.read_text(encoding="utf-8"))
    base_tmp = tempfile.mkdtemp(prefix="verif-replay-", dir=scratch_root())
    try:
        _worker_init(module.__name__, base_tmp)
        first = module.replay(payload["case"])
        second = module.replay(payload["case"])
    finally:
        tempfile.tempdir = None
        os.environ.pop("TMPDIR", None)
        shutil.rmtree(base_tmp, ignore_errors=True)
    sigs_first = sorted(v.signature for v in first)
    sigs_second = sorted(v.signature for v in second)
    if sigs_first != sigs_second:
        print(
            f"HARNESS-ERROR property={property_id} replay not deterministic: "
            f"{sigs_first} vs {sigs_second}"
        )
        return 2
    if not first:
        print(f"[{property_id} replay] no violation on {path}")
        return 0
    known = {item.key for item in load_known(property_id)}
    status = 0
    for violation in first:
        if violation.signature in known:
            print(
                f"KNOWN-FINDING: property={property_id} {violation.message} "
                f"[key={violation.signature}]"
            )
        else:
            print(
                f"VIOLATION property={property_id} replay={path} "
                f":: {violation.signature} :: {violation.message}"
            )
            status = 1
    return status
