"""
G-RE: exhaustive generators of regular-expression pattern strings (see DESIGN.md 2.2).

(a) all raw strings up to a length over the metacharacter alphabet ``SIGMA``;
(b) all patterns built from a small AST grammar up to a node budget, in several
    equivalent spellings;
(c) all single-character edits of (b) (near-misses).
"""
from __future__ import annotations

import functools
import itertools
from typing import Iterator, List, Sequence, Tuple

SIGMA = list("ab^$.()[]|*+?{},12-\\x")

# Leaves of the AST grammar: (spelling, cost)
LEAVES_BASIC = ["a", "b", ".", "[ab]", "[^a]", "[a-c]"]
LEAVES_EXTRA = ["\\x61", "-", "\\.", "\\U0001f600", "\U0001F600", "[a\\-]", "[\\x61-c]"]
QUANTIFIERS_BASIC = ["", "?", "*", "+", "{2}", "{1,2}"]
QUANTIFIERS_EXTRA = ["{2,}", "{,2}", "{0,1}", "*?", "{0}", "{0,0}", "{,0}", "{1,0}", "{2,1}", "{0,}"]


class Grammar:
    """Enumerate the pattern strings of the AST grammar by exact cost."""

    def __init__(self, leaves: Sequence[str], quantifiers: Sequence[str]) -> None:
        self.leaves = list(leaves)
        self.quantifiers = list(quantifiers)
        self._unions = {}  # type: ignore
        self._concats = {}  # type: ignore
        self._terms = {}  # type: ignore

    def atoms(self, n: int) -> List[str]:
        if n == 1:
            return list(self.leaves)
        if n >= 2:
            return [f"({inner})" for inner in self.unions(n - 1)]
        return []

    def terms(self, n: int) -> List[str]:
        """A term = an atom with an optional quantifier (a quantifier costs 1)."""
        if n in self._terms:
            return self._terms[n]  # type: ignore
        result = []  # type: List[str]
        for quantifier in self.quantifiers:
            cost = 0 if quantifier == "" else 1
            for atom in self.atoms(n - cost):
                result.append(atom + quantifier)
        self._terms[n] = result
        return result

    def concats(self, n: int) -> List[str]:
        if n in self._concats:
            return self._concats[n]  # type: ignore
        result = []  # type: List[str]
        if n == 0:
            result.append("")
        else:
            for k in range(1, n + 1):
                for term in self.terms(k):
                    for rest in self.concats(n - k):
                        result.append(term + rest)
        self._concats[n] = result
        return result

    def unions(self, n: int) -> List[str]:
        """One alternative (cost n) or two alternatives (the bar costs 1)."""
        if n in self._unions:
            return self._unions[n]  # type: ignore
        result = list(self.concats(n))
        if n >= 1:
            for left_cost in range(0, n):
                right_cost = n - 1 - left_cost
                for left in self.concats(left_cost):
                    for right in self.concats(right_cost):
                        result.append(f"{left}|{right}")
        self._unions[n] = result
        return result

    def patterns_up_to(self, n: int) -> List[str]:
        seen = set()
        result = []  # type: List[str]
        for k in range(0, n + 1):
            for pattern in self.unions(k):
                if pattern not in seen:
                    seen.add(pattern)
                    result.append(pattern)
        return result


def raw_strings(length: int, head: Tuple[str, ...] = ()) -> Iterator[str]:
    """All strings over ``SIGMA`` of exactly ``length`` starting with ``head``."""
    if length < len(head):
        return
    prefix = "".join(head)
    for tail in itertools.product(SIGMA, repeat=length - len(head)):
        yield prefix + "".join(tail)


def single_edits(pattern: str, alphabet: Sequence[str]) -> Iterator[str]:
    """All strings at edit distance one (delete / insert / replace)."""
    for i in range(len(pattern)):
        yield pattern[:i] + pattern[i + 1 :]
        for ch in alphabet:
            if ch != pattern[i]:
                yield pattern[:i] + ch + pattern[i + 1 :]
    for i in range(len(pattern) + 1):
        for ch in alphabet:
            yield pattern[:i] + ch + pattern[i:]


@functools.lru_cache(maxsize=None)
def probes(alphabet: Tuple[str, ...], max_len: int) -> Tuple[str, ...]:
    """All strings of length <= ``max_len`` over ``alphabet`` (shortest first)."""
    result = []  # type: List[str]
    for n in range(0, max_len + 1):
        for combo in itertools.product(alphabet, repeat=n):
            result.append("".join(combo))
    return tuple(result)
